#!/usr/bin/env python3
"""Run the checks against the seeded changes kept under /verif/seeded/<id>/.

  seeded.py run <id> [tier]     apply seeded/<id>/patch.diff to a scratch worktree of /repo's HEAD,
                                run the check(s) named in meta.json against it, print what they report
  seeded.py all [tier]          the same for every seeded change, summary table at the end

/repo itself is never modified: the scratch worktree (/tmp/seedrepo) is passed to the driver through
VERIF_REPO, with its own cargo target prefix, and removed afterwards.
"""
import json, os, subprocess, sys, time
HERE = os.path.dirname(os.path.dirname(os.path.abspath(__file__)))
SEEDED = os.path.join(HERE, "seeded")
SCRATCH = "/tmp/seedrepo"


def sh(cmd, **kw):
    return subprocess.run(cmd, stdout=subprocess.PIPE, stderr=subprocess.STDOUT, text=True, **kw)


def run_one(sid, tier="quick"):
    d = os.path.join(SEEDED, sid)
    meta = json.load(open(os.path.join(d, "meta.json")))
    sh(["git", "-C", "/repo", "worktree", "remove", "--force", SCRATCH])
    r = sh(["git", "-C", "/repo", "worktree", "add", "--detach", SCRATCH, "HEAD"])
    if r.returncode != 0:
        print(r.stdout)
        return None
    try:
        r = sh(["git", "-C", SCRATCH, "apply", os.path.join(d, "patch.diff")])
        if r.returncode != 0:
            print(f"{sid}: patch does not apply: {r.stdout}")
            return None
        # the harness resolves dependencies with /repo's lock file
        if not os.path.exists(os.path.join(SCRATCH, "Cargo.lock")):
            sh(["cp", "/repo/Cargo.lock", SCRATCH])
        results = {}
        for prop in meta.get("checks", [meta["property"]]):
            env = dict(os.environ, VERIF_REPO=SCRATCH, VERIF_TARGET="mut-", VERIF_SKIP_MIRI=os.environ.get("VERIF_SKIP_MIRI", "1"))
            t = time.time()
            r = subprocess.run([os.path.join(HERE, "check"), prop, tier], cwd=HERE, env=env, stdout=subprocess.PIPE,
                               stderr=subprocess.PIPE, text=True)
            viol = [l for l in r.stdout.splitlines() if l.startswith("VIOLATION")]
            results[prop] = {"exit": r.returncode, "violations": len(viol), "first": (viol[0][:260] if viol else ""),
                             "wall_s": round(time.time() - t, 1)}
            print(f"{sid} {prop} {tier}: exit {r.returncode}, {len(viol)} VIOLATION line(s) in {results[prop]['wall_s']}s")
            if viol:
                print("   ", viol[0][:260])
        return results
    finally:
        sh(["git", "-C", "/repo", "worktree", "remove", "--force", SCRATCH])
        # evidence files written during a seeded run describe the scratch copy: restore the committed ones
        sh(["git", "-C", HERE, "checkout", "--", "evidence"])
        # point the harness manifest back at /repo (it was generated for the scratch copy)
        tin = os.path.join(HERE, "harness", "Cargo.toml.in")
        open(os.path.join(HERE, "harness", "Cargo.toml"), "w").write(open(tin).read().replace("@REPO@", "/repo"))


def main():
    if len(sys.argv) < 2:
        print(__doc__)
        return 2
    tier = "quick"
    if sys.argv[1] == "run":
        tier = sys.argv[3] if len(sys.argv) > 3 else "quick"
        res = run_one(sys.argv[2], tier)
        rp = os.path.join(SEEDED, f"RESULTS.{tier}.json")
        if res and os.path.exists(rp):
            table = json.load(open(rp))
            table[sys.argv[2]] = res
            json.dump(table, open(rp, "w"), indent=1)
        return 0 if res and all(v["exit"] == 1 for v in res.values()) else 1
    if sys.argv[1] == "all":
        tier = sys.argv[2] if len(sys.argv) > 2 else "quick"
        table = {}
        rp = os.path.join(SEEDED, f"RESULTS.{tier}.json")
        if "--new" in sys.argv and os.path.exists(rp):
            table = json.load(open(rp))  # keep earlier results, run only the changes not yet listed
        for sid in sorted(os.listdir(SEEDED)):
            if os.path.exists(os.path.join(SEEDED, sid, "meta.json")) and sid not in table:
                table[sid] = run_one(sid, tier)
                json.dump(table, open(rp, "w"), indent=1)
        json.dump(table, open(os.path.join(SEEDED, f"RESULTS.{tier}.json"), "w"), indent=1)
        caught = sum(1 for v in table.values() if v and any(x["exit"] == 1 for x in v.values()))
        print(f"caught {caught} of {len(table)}")
        return 0
    print(__doc__)
    return 2


if __name__ == "__main__":
    sys.exit(main())
