#!/opt/veriftools/pyvenv/bin/python3
"""mpmath arbiter for C15 suspects (stage 2) and for spot checks of passing cases.

  arbiter.py <cases.json> <verdicts.json>

cases: [{"fn": "sin", "inputs": ["0x..", ...], "got": "0x..", "bound": 2, ...}, ...]
For each case the function is evaluated with mpmath at 300 bits on the exact (dyadic) inputs,
rounded to P32E2 by the posit rule of DESIGN.md §3.1 with saturating semantics (huge -> maxpos,
tiny -> minpos, outside the real domain -> NaR), and the distance |got - want| between the
encodings (as signed 32-bit integers) is reported. When the 300-bit value is too close to a
rounding boundary to decide the rounding (or the result is exactly representable), both
neighbouring candidates are considered and the *smaller* distance is reported together with
"decided": false if the two candidates give different verdicts.
"""
import json
import sys
from fractions import Fraction

import mpmath
from mpmath import mp, mpf

N, ES = 32, 2
NAR = 0x80000000
MAXPOS = 0x7FFFFFFF
mp.prec = 300


def decode(p):
    """exact Fraction of a P32E2 pattern, None for NaR"""
    p &= 0xFFFFFFFF
    if p == 0:
        return Fraction(0)
    if p == NAR:
        return None
    neg = p >> 31
    q = (-p) & 0xFFFFFFFF if neg else p
    bits = [(q >> i) & 1 for i in range(30, -1, -1)]
    r0 = bits[0]
    run = 1
    while run < 31 and bits[run] == r0:
        run += 1
    k = run - 1 if r0 == 1 else -run
    pos = run + 1
    e = 0
    for _ in range(ES):
        e <<= 1
        if pos < 31:
            e |= bits[pos]
        pos += 1
    fb = max(0, 31 - pos)
    frac = 0
    for i in range(pos, 31):
        frac = (frac << 1) | bits[i]
    m = (1 << fb) | frac
    v = Fraction(m, 1 << fb) * Fraction(2) ** (k * 4 + e)
    return -v if neg else v


def to_mpf(fr):
    return mpf(fr.numerator) / mpf(fr.denominator)


def encode_candidates(y):
    """y: nonzero mpf. returns (down, up, choice, decided): the patterns obtained by truncating /
    incrementing the unbounded bit string, the posit-rule choice, and whether the 300-bit value
    decides it"""
    neg = y < 0
    a = -y if neg else y
    man, exp = int(a.man), int(a.exp)  # a = man * 2^exp exactly
    L = man.bit_length()
    s = exp + L - 1
    k, ex = divmod(s, 4)
    nb = 31
    if k >= nb - 1:
        r = MAXPOS
        return (r, r, r, True) if not neg else tuple([(-r) & 0xFFFFFFFF] * 3 + [True])
    if k <= -nb:
        r = 1
        return (r, r, r, True) if not neg else tuple([(-r) & 0xFFFFFFFF] * 3 + [True])
    if k >= 0:
        rl, reg = k + 2, ((1 << (k + 1)) - 1) << 1
    else:
        rl, reg = -k + 1, 1
    fbits = L - 1
    frac = man - (1 << fbits)
    string = (((reg << ES) | ex) << fbits) | frac
    total = rl + ES + fbits
    drop = total - nb
    assert drop > 64, "not enough bits"
    u = string >> drop
    rbit = (string >> (drop - 1)) & 1
    rest = string & ((1 << (drop - 1)) - 1)
    restbits = drop - 1
    # the value is irrational in general: 'rest' stands for rest + epsilon. It decides unless the
    # visible bits are all zero (possible exact tie / exact value) or all ones (could carry)
    window = min(restbits, 180)
    top = rest >> (restbits - window)
    all_zero = top == 0
    all_one = top == (1 << window) - 1
    down = max(1, min(MAXPOS, u))
    up = max(1, min(MAXPOS, u + 1))
    if rbit:
        choice = up if (rest != 0 or (u & 1)) else down
    else:
        choice = down
    decided = not (all_zero or all_one)
    if neg:
        f = lambda v: (-v) & 0xFFFFFFFF
        return f(down), f(up), f(choice), decided
    return down, up, choice, decided


def s32(p):
    p &= 0xFFFFFFFF
    return p - (1 << 32) if p >> 31 else p


def evaluate(fn, xs):
    """returns mpf value, or None for 'not a real number' (want NaR), or Fraction for exact rationals"""
    if any(x is None for x in xs):
        return None
    x = to_mpf(xs[0])
    if fn == "sin":
        return mp.sin(x) if xs[0] != 0 else Fraction(0)
    if fn == "cos":
        return mp.cos(x) if xs[0] != 0 else Fraction(1)
    if fn == "tan":
        return mp.tan(x) if xs[0] != 0 else Fraction(0)
    if fn == "asin":
        if abs(xs[0]) > 1:
            return None
        return mp.asin(x) if xs[0] != 0 else Fraction(0)
    if fn == "acos":
        if abs(xs[0]) > 1:
            return None
        return mp.acos(x) if xs[0] != 1 else Fraction(0)
    if fn == "atan":
        return mp.atan(x) if xs[0] != 0 else Fraction(0)
    if fn == "cbrt":
        if xs[0] == 0:
            return Fraction(0)
        y = mp.cbrt(abs(x))
        # exact cube?
        n, d = abs(xs[0]).numerator, abs(xs[0]).denominator
        rn, rd = round(n ** (1 / 3)), round(d ** (1 / 3))
        for a in (rn - 1, rn, rn + 1):
            for b in (rd - 1, rd, rd + 1):
                if a > 0 and b > 0 and a ** 3 == n and b ** 3 == d:
                    r = Fraction(a, b)
                    return r if xs[0] > 0 else -r
        return y if xs[0] > 0 else -y
    if fn == "ln":
        if xs[0] <= 0:
            return None
        return mp.log(x) if xs[0] != 1 else Fraction(0)
    if fn == "log2":
        if xs[0] <= 0:
            return None
        n, d = xs[0].numerator, xs[0].denominator
        if n & (n - 1) == 0 and d & (d - 1) == 0:
            return Fraction(n.bit_length() - d.bit_length())
        return mp.log(x, 2)
    if fn == "exp":
        return mp.exp(x) if xs[0] != 0 else Fraction(1)
    if fn == "exp2":
        if xs[0].denominator == 1 and abs(xs[0]) < 2000:
            return Fraction(2) ** int(xs[0])
        return mp.power(2, x)
    if fn == "sinh":
        return mp.sinh(x) if xs[0] != 0 else Fraction(0)
    if fn == "cosh":
        return mp.cosh(x) if xs[0] != 0 else Fraction(1)
    y = to_mpf(xs[1])
    if fn == "atan2":
        if xs[0] == 0 and xs[1] >= 0:
            return Fraction(0)
        return mp.atan2(x, y)
    if fn == "hypot":
        sq = xs[0] * xs[0] + xs[1] * xs[1]
        if sq == 0:
            return Fraction(0)
        n, d = sq.numerator, sq.denominator
        import math
        rn, rd = math.isqrt(n), math.isqrt(d)
        if rn * rn == n and rd * rd == d:
            return Fraction(rn, rd)
        return mp.sqrt(to_mpf(sq))
    if fn == "powf":
        if xs[0] < 0 and xs[1].denominator != 1:
            return None
        if xs[0] == 0:
            if xs[1] < 0:
                return None
            return Fraction(1) if xs[1] == 0 else Fraction(0)
        if xs[1].denominator == 1 and abs(xs[1]) <= 64:
            return xs[0] ** int(xs[1])
        return mp.power(x, y)
    raise ValueError(fn)


def round_fraction(fr):
    """exact posit rounding of a rational (via a long binary expansion + exact remainder)"""
    if fr == 0:
        return 0
    # scale to an integer mantissa with plenty of bits, keep the exact remainder as sticky
    neg = fr < 0
    a = -fr if neg else fr
    sh = 400
    num = a.numerator << sh
    q, r = divmod(num, a.denominator)
    y = mpf(q) * mpf(2) ** (-sh)  # exact at 300 bits? q may have > 300 bits: use integers below
    man, exp = q, -sh
    L = man.bit_length()
    s = exp + L - 1
    k, ex = divmod(s, 4)
    nb = 31
    if k >= nb - 1:
        res = MAXPOS
    elif k <= -nb:
        res = 1
    else:
        if k >= 0:
            rl, reg = k + 2, ((1 << (k + 1)) - 1) << 1
        else:
            rl, reg = -k + 1, 1
        fbits = L - 1
        frac = man - (1 << fbits)
        string = (((reg << ES) | ex) << fbits) | frac
        total = rl + ES + fbits
        drop = total - nb
        u = string >> drop
        rbit = (string >> (drop - 1)) & 1
        rest = (string & ((1 << (drop - 1)) - 1)) != 0 or r != 0
        res = u + (1 if rbit and (rest or (u & 1)) else 0)
        res = max(1, min(MAXPOS, res))
    return (-res) & 0xFFFFFFFF if neg else res


def judge(case):
    fn = case["fn"]
    ins = [decode(int(v, 16)) for v in case["inputs"]]
    got = int(case["got"], 16) & 0xFFFFFFFF
    bound = int(case["bound"])
    y = evaluate(fn, ins)
    out = {"fn": fn, "inputs": case["inputs"], "got": case["got"], "bound": bound}
    if y is None:
        out.update(want="0x80000000", distance=0 if got == NAR else None, decided=True,
                   exceeds=got != NAR, note="not a real number: NaR required")
        return out
    if got == NAR:
        out.update(want="(a real value)", distance=None, decided=True, exceeds=True, note="NaR returned for a real result")
        return out
    if isinstance(y, Fraction):
        w = round_fraction(y)
        d = abs(s32(got) - s32(w))
        out.update(want=hex(w), distance=d, decided=True, exceeds=d > bound, note="exact rational result")
        return out
    down, up, choice, decided = encode_candidates(y)
    d = abs(s32(got) - s32(choice))
    if decided:
        out.update(want=hex(choice), distance=d, decided=True, exceeds=d > bound)
    else:
        ds = [abs(s32(got) - s32(c)) for c in (down, up)]
        verdicts = {x > bound for x in ds}
        out.update(want=hex(choice), distance=min(ds), decided=len(verdicts) == 1, exceeds=min(ds) > bound,
                   note="value within 2^-180 of a rounding boundary: both neighbours considered")
    return out


def main():
    cases = json.load(open(sys.argv[1]))
    res = [judge(c) for c in cases]
    json.dump(res, open(sys.argv[2], "w"), indent=1)
    print(json.dumps({"judged": len(res), "exceeding": sum(1 for r in res if r["exceeds"]),
                      "undecided": sum(1 for r in res if not r["decided"])}))


if __name__ == "__main__":
    main()
