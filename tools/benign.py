#!/usr/bin/env python3
"""Property-PRESERVING changes (refactorings, equivalent re-implementations, changes of code the
property does not speak about) kept under /verif/benign/<id>/ - the checks must stay silent on them.

  benign.py add <agent dir> <i> <id> <property> [<other check> ...]   file benign_<i>.diff + its NOTES paragraph
  benign.py run <id> [tier]      apply benign/<id>/patch.diff to a scratch worktree of /repo's HEAD, run
                                 the checks named in meta.json (Miri stage of C16 included), expect exit 0
  benign.py all [tier] [--new]   every kept change; results in benign/RESULTS.<tier>.json

/repo itself is never modified (scratch worktree /tmp/seedrepo via VERIF_REPO, removed afterwards).
"""
import json, os, subprocess, sys, time
HERE = os.path.dirname(os.path.dirname(os.path.abspath(__file__)))
BENIGN = os.path.join(HERE, "benign")
SCRATCH = "/tmp/seedrepo"


def sh(cmd, **kw):
    return subprocess.run(cmd, stdout=subprocess.PIPE, stderr=subprocess.STDOUT, text=True, **kw)


def add(src, i, bid, prop, others):
    d = os.path.join(BENIGN, bid)
    os.makedirs(d, exist_ok=True)
    diff = open(os.path.join(src, f"benign_{i}.diff")).read()
    open(os.path.join(d, "patch.diff"), "w").write(diff)
    notes = open(os.path.join(src, "NOTES.md")).read() if os.path.exists(os.path.join(src, "NOTES.md")) else ""
    files = sorted({l[6:].strip() for l in diff.splitlines() if l.startswith("+++ b/")})
    json.dump({"id": bid, "property": prop, "checks": [prop] + list(others), "files_changed": files,
               "origin": "sub-agent given only the property text and a scratch worktree, asked for changes under which the property still holds",
               "agent_notes": notes}, open(os.path.join(d, "meta.json"), "w"), indent=1)
    print("filed", bid, files)


def run_one(bid, tier="quick"):
    d = os.path.join(BENIGN, bid)
    meta = json.load(open(os.path.join(d, "meta.json")))
    sh(["git", "-C", "/repo", "worktree", "remove", "--force", SCRATCH])
    r = sh(["git", "-C", "/repo", "worktree", "add", "--detach", SCRATCH, "HEAD"])
    if r.returncode != 0:
        print(r.stdout)
        return None
    try:
        r = sh(["git", "-C", SCRATCH, "apply", os.path.join(d, "patch.diff")])
        if r.returncode != 0:
            print(f"{bid}: patch does not apply: {r.stdout}")
            return None
        if not os.path.exists(os.path.join(SCRATCH, "Cargo.lock")):
            sh(["cp", "/repo/Cargo.lock", SCRATCH])
        results = {}
        for prop in meta["checks"]:
            env = dict(os.environ, VERIF_REPO=SCRATCH, VERIF_TARGET="mut-", VERIF_SKIP_MIRI=os.environ.get("VERIF_SKIP_MIRI", "0"))
            t = time.time()
            r = subprocess.run([os.path.join(HERE, "check"), prop, tier], cwd=HERE, env=env, stdout=subprocess.PIPE,
                               stderr=subprocess.PIPE, text=True)
            loud = [l for l in r.stdout.splitlines() if l.startswith(("VIOLATION", "INCONCLUSIVE"))]
            results[prop] = {"exit": r.returncode, "alarms": len(loud), "first": (loud[0][:300] if loud else ""),
                             "notes": [l[:200] for l in r.stdout.splitlines() if l.startswith("NOTE")][:3],
                             "wall_s": round(time.time() - t, 1)}
            print(f"{bid} {prop} {tier}: exit {r.returncode}, {len(loud)} alarm line(s) in {results[prop]['wall_s']}s")
            if loud:
                print("   ", loud[0][:300])
            if r.returncode not in (0, 1):
                print("   ", (r.stdout + r.stderr)[-400:])
        return results
    finally:
        sh(["git", "-C", "/repo", "worktree", "remove", "--force", SCRATCH])
        sh(["git", "-C", HERE, "checkout", "--", "evidence"])
        tin = os.path.join(HERE, "harness", "Cargo.toml.in")
        open(os.path.join(HERE, "harness", "Cargo.toml"), "w").write(open(tin).read().replace("@REPO@", "/repo"))


def main():
    a = sys.argv
    if len(a) >= 6 and a[1] == "add":
        add(a[2], a[3], a[4], a[5], a[6:])
        return 0
    tier = "quick"
    if len(a) >= 3 and a[1] == "run":
        tier = a[3] if len(a) > 3 else "quick"
        res = run_one(a[2], tier)
        rp = os.path.join(BENIGN, f"RESULTS.{tier}.json")
        table = json.load(open(rp)) if os.path.exists(rp) else {}
        if res:
            table[a[2]] = res
            json.dump(table, open(rp, "w"), indent=1)
        return 0 if res and all(v["exit"] == 0 for v in res.values()) else 1
    if len(a) >= 2 and a[1] == "all":
        tier = a[2] if len(a) > 2 and not a[2].startswith("--") else "quick"
        rp = os.path.join(BENIGN, f"RESULTS.{tier}.json")
        table = json.load(open(rp)) if ("--new" in a and os.path.exists(rp)) else {}
        for bid in sorted(os.listdir(BENIGN)):
            if os.path.exists(os.path.join(BENIGN, bid, "meta.json")) and bid not in table:
                table[bid] = run_one(bid, tier)
                json.dump(table, open(rp, "w"), indent=1)
        silent = sum(1 for v in table.values() if v and all(x["exit"] == 0 for x in v.values()))
        print(f"silent on {silent} of {len(table)}")
        return 0
    print(__doc__)
    return 2


if __name__ == "__main__":
    sys.exit(main())
