#!/usr/bin/env python3
"""Regenerate the table of seeded changes in DESIGN.md (between the seeded-table markers) from
seeded/*/meta.json and seeded/RESULTS.quick.json."""
import json
import os
import re

HERE = os.path.dirname(os.path.dirname(os.path.abspath(__file__)))
SEEDED = os.path.join(HERE, "seeded")


def main():
    res = json.load(open(os.path.join(SEEDED, "RESULTS.quick.json")))
    rows = ["| seeded change | property | needs, in order to manifest | quick checks that report it |", "|---|---|---|---|"]
    n = caught = 0
    for sid in sorted(os.listdir(SEEDED)):
        mp = os.path.join(SEEDED, sid, "meta.json")
        if not os.path.exists(mp):
            continue
        m = json.load(open(mp))
        r = res.get(sid, {})
        cells = []
        for prop, v in r.items():
            if v["exit"] == 1:
                cells.append(prop)
            elif v["exit"] == 0:
                cells.append(f"{prop} (silent)")
            else:
                cells.append(f"{prop} (exit {v['exit']})")
        n += 1
        caught += 1 if r.get(m["property"], {}).get("exit") == 1 else 0
        needs = m.get("needs_to_manifest", "").replace("|", "\\|")
        if len(needs) > 230:
            needs = needs[:227] + "..."
        rows.append(f"| `{sid}` | {m['property']} | {needs} | {', '.join(cells) if cells else 'not run'} |")
    rows.append("")
    rows.append(f"   {caught} of the {n} kept changes are reported by the quick tier of the check of the property they target.")
    p = os.path.join(HERE, "DESIGN.md")
    s = open(p).read()
    a, b = "<!-- seeded-table:begin -->", "<!-- seeded-table:end -->"
    i, j = s.index(a), s.index(b)
    s = s[: i + len(a)] + "\n" + "\n".join(rows) + "\n" + s[j:]
    open(p, "w").write(s)
    print(f"{caught} of {n}")


if __name__ == "__main__":
    main()
