#!/opt/veriftools/pyvenv/bin/python3
"""Reference tables for C11: correctly rounded P16E1 / P8E0 elementary functions.

  gen_tables.py generate <outdir> [--prec 400]     write <fn>_p16.bin (65536 x u16 LE), <fn>_p8.bin, SUMMARY.json
  gen_tables.py sample <tabledir> <seed> <percent> [--prec 320]
                                                     re-derive a seed-chosen sample at another precision and compare

Rounding is the posit rule of DESIGN.md §3.1 done with exact rationals: the positive patterns
are decoded to Fractions, the rounding boundary between p and p+1 is the (n+1)-bit pattern
2p+1, and a value computed by mpmath at `prec` bits is accepted only if it is farther than
2^-(prec-100) (relative) from the decision points next to it (Ziv-style). The inputs where
the mathematical result is rational are taken from an explicit exact-case table and rounded
with Fractions, never with mpmath.
"""
import bisect
import hashlib
import json
import os
import struct
import sys
from fractions import Fraction

import mpmath
from mpmath import mp, mpf

P16_FUNCS = ["exp", "exp2", "ln", "log2", "sin_pi", "cos_pi", "tan_pi", "asin_pi", "acos_pi", "atan_pi"]
P8_FUNCS = ["exp", "ln"]


def decode(n, es, p):
    """exact value of an n-bit posit pattern: Fraction, or None for NaR"""
    mask = (1 << n) - 1
    p &= mask
    if p == 0:
        return Fraction(0)
    if p == 1 << (n - 1):
        return None
    neg = p >> (n - 1)
    q = (-p) & mask if neg else p
    bits = [(q >> i) & 1 for i in range(n - 2, -1, -1)]
    r0 = bits[0]
    run = 1
    while run < len(bits) and bits[run] == r0:
        run += 1
    k = run - 1 if r0 == 1 else -run
    pos = run + 1
    e = 0
    for _ in range(es):
        e <<= 1
        if pos < len(bits):
            e |= bits[pos]
        pos += 1
    fb = max(0, len(bits) - pos)
    frac = 0
    for i in range(pos, len(bits)):
        frac = (frac << 1) | bits[i]
    m = (1 << fb) | frac
    scale = k * (1 << es) + e
    v = Fraction(m, 1 << fb) * (Fraction(2) ** scale)
    return -v if neg else v


class Format:
    def __init__(self, n, es):
        self.n, self.es = n, es
        self.maxpos = (1 << (n - 1)) - 1
        self.nar = 1 << (n - 1)
        self.vals = [None] + [decode(n, es, p) for p in range(1, self.maxpos + 1)]  # vals[p]
        self.mids = [None] + [decode(n + 1, es, 2 * p + 1) for p in range(1, self.maxpos)]  # mids[p] between p and p+1
        self.vals_mp = None

    def prepare_mp(self):
        self.vals_mp = [mpf(0)] + [mpf(v.numerator) / mpf(v.denominator) for v in self.vals[1:]]
        self.mids_mp = [mpf(0)] + [mpf(v.numerator) / mpf(v.denominator) for v in self.mids[1:]]

    def neg(self, p):
        return (-p) & ((1 << self.n) - 1)

    def round_fraction(self, y):
        """exact rounding of a rational"""
        if y == 0:
            return 0
        neg = y < 0
        a = -y if neg else y
        if a >= self.vals[self.maxpos]:
            r = self.maxpos
        elif a <= self.vals[1]:
            r = 1
        else:
            p = bisect.bisect_right(self.vals, a, 1, self.maxpos + 1) - 1
            if self.vals[p] == a:
                r = p
            else:
                m = self.mids[p]
                r = p if a < m else p + 1 if a > m else (p if p % 2 == 0 else p + 1)
        return self.neg(r) if neg else r

    def round_mp(self, y, tol):
        """rounding of an mpmath value that is known to be irrational; returns (pattern, decided)"""
        neg = y < 0
        a = -y if neg else y
        if a >= self.vals_mp[self.maxpos]:
            r, ok = self.maxpos, True
        elif a <= self.vals_mp[1]:
            r, ok = 1, True
        else:
            p = bisect.bisect_right(self.vals_mp, a, 1, self.maxpos + 1) - 1
            m = self.mids_mp[p]
            r = p if a < m else p + 1
            # the only decision point that matters is the midpoint; also keep away from the
            # neighbours themselves (a value *on* a posit would be an unexpected exact case)
            ok = abs(a - m) > tol * m and abs(a - self.vals_mp[p]) > tol * a and abs(a - self.vals_mp[p + 1]) > tol * a
        return (self.neg(r) if neg else r), ok


def reduce_mod(x, m):
    """x mod m in [0, m) exactly"""
    q = x // m
    return x - q * m


def evaluate(fn, x, fmt, tol):
    """x: Fraction (real input). returns (pattern, kind) kind in exact|generic|undecided"""
    NAR = fmt.nar
    one = Fraction(1)
    half = Fraction(1, 2)

    def exact(v):
        return fmt.round_fraction(v), "exact"

    def generic(y):
        r, ok = fmt.round_mp(y, tol)
        return r, ("generic" if ok else "undecided")

    xm = mpf(x.numerator) / mpf(x.denominator)
    if fn == "exp":
        if x == 0:
            return exact(one)
        if abs(x) > 4000:  # far beyond saturation for 8/16-bit posits
            return (fmt.maxpos if x > 0 else 1), "exact"
        return generic(mp.exp(xm))
    if fn == "exp2":
        if x.denominator == 1:
            k = int(x)
            if abs(k) > 4000:
                return (fmt.maxpos if k > 0 else 1), "exact"
            return exact(Fraction(2) ** k)
        if abs(x) > 4000:
            return (fmt.maxpos if x > 0 else 1), "exact"
        return generic(mp.power(2, xm))
    if fn == "ln":
        if x <= 0:
            return NAR, "exact"
        if x == 1:
            return exact(Fraction(0))
        return generic(mp.log(xm))
    if fn == "log2":
        if x <= 0:
            return NAR, "exact"
        # x = 2^k ?
        n, d = x.numerator, x.denominator
        if n & (n - 1) == 0 and d & (d - 1) == 0:
            return exact(Fraction(n.bit_length() - d.bit_length()))
        return generic(mp.log(xm, 2))
    if fn in ("sin_pi", "cos_pi", "tan_pi"):
        if fn == "tan_pi":
            r = reduce_mod(x, one)  # period 1
            if r == 0:
                return exact(Fraction(0))
            if r == half:
                return NAR, "exact"  # pole
            if r == Fraction(1, 4):
                return exact(one)
            if r == Fraction(3, 4):
                return exact(-one)
            rm = mpf(r.numerator) / mpf(r.denominator)
            return generic(mp.tan(mp.pi * rm))
        r = reduce_mod(x, Fraction(2))  # period 2
        if (2 * r).denominator == 1:  # multiple of 1/2
            j = int(2 * r)  # 0..3
            s = [0, 1, 0, -1][j]
            c = [1, 0, -1, 0][j]
            return exact(Fraction(s if fn == "sin_pi" else c))
        rm = mpf(r.numerator) / mpf(r.denominator)
        return generic(mp.sin(mp.pi * rm) if fn == "sin_pi" else mp.cos(mp.pi * rm))
    if fn == "asin_pi":
        if abs(x) > 1:
            return NAR, "exact"
        if x == 0:
            return exact(Fraction(0))
        if abs(x) == 1:
            return exact(half if x > 0 else -half)
        if abs(x) == half:
            return exact(Fraction(1, 6) if x > 0 else Fraction(-1, 6))
        return generic(mp.asin(xm) / mp.pi)
    if fn == "acos_pi":
        if abs(x) > 1:
            return NAR, "exact"
        table = {Fraction(1): Fraction(0), Fraction(0): half, Fraction(-1): one, half: Fraction(1, 3), -half: Fraction(2, 3)}
        if x in table:
            return exact(table[x])
        return generic(mp.acos(xm) / mp.pi)
    if fn == "atan_pi":
        if x == 0:
            return exact(Fraction(0))
        if abs(x) == 1:
            return exact(Fraction(1, 4) if x > 0 else Fraction(-1, 4))
        return generic(mp.atan(xm) / mp.pi)
    raise ValueError(fn)


def table_for(fn, fmt, prec, patterns=None):
    mp.prec = prec
    fmt.prepare_mp()
    tol = mpf(2) ** (-(prec - 100))
    n = fmt.n
    out = {}
    counts = {"exact": 0, "generic": 0, "undecided": 0, "nar_input": 0}
    undecided = []
    for p in (patterns if patterns is not None else range(1 << n)):
        x = decode(n, fmt.es, p)
        if x is None:
            out[p] = fmt.nar
            counts["nar_input"] += 1
            continue
        r, kind = evaluate(fn, x, fmt, tol)
        out[p] = r
        counts[kind] += 1
        if kind == "undecided":
            undecided.append(p)
    return out, counts, undecided


def write_table(path, n, tab):
    with open(path, "wb") as f:
        for p in range(1 << n):
            f.write(struct.pack("<H" if n == 16 else "<B", tab[p]))


def read_table(path, n):
    data = open(path, "rb").read()
    if n == 16:
        return list(struct.unpack("<%dH" % (1 << 16), data))
    return list(data)


def main():
    args = sys.argv[1:]
    prec = 400
    if "--prec" in args:
        i = args.index("--prec")
        prec = int(args[i + 1])
        del args[i:i + 2]
    if args[0] == "generate":
        outdir = args[1]
        os.makedirs(outdir, exist_ok=True)
        summary = {"precision_bits": prec, "mpmath": mpmath.__version__, "tables": {}}
        f16, f8 = Format(16, 1), Format(8, 0)
        for fmt, funcs, tag in ((f16, P16_FUNCS, "p16"), (f8, P8_FUNCS, "p8")):
            for fn in funcs:
                tab, counts, und = table_for(fn, fmt, prec)
                path = os.path.join(outdir, f"{fn}_{tag}.bin")
                write_table(path, fmt.n, tab)
                summary["tables"][f"{fn}_{tag}"] = {
                    "counts": counts,
                    "undecided_inputs": und,
                    "sha256": hashlib.sha256(open(path, "rb").read()).hexdigest(),
                }
                print(fn, tag, counts, file=sys.stderr)
        json.dump(summary, open(os.path.join(outdir, "SUMMARY.json"), "w"), indent=1, sort_keys=True)
        return 0
    if args[0] == "sample":
        tabledir, seed, percent = args[1], int(args[2]), float(args[3])
        if prec == 400:
            prec = 320
        import random
        rnd = random.Random(seed)
        f16, f8 = Format(16, 1), Format(8, 0)
        bad = []
        checked = 0
        for fmt, funcs, tag in ((f16, P16_FUNCS, "p16"), (f8, P8_FUNCS, "p8")):
            for fn in funcs:
                ref = read_table(os.path.join(tabledir, f"{fn}_{tag}.bin"), fmt.n)
                k = max(16, int((1 << fmt.n) * percent / 100))
                pats = sorted(rnd.sample(range(1 << fmt.n), min(k, 1 << fmt.n)))
                tab, counts, und = table_for(fn, fmt, prec, pats)
                for p in pats:
                    checked += 1
                    if tab[p] != ref[p]:
                        bad.append((fn, tag, p, tab[p], ref[p]))
                if und:
                    bad.append((fn, tag, "undecided", und[:5], None))
        print(json.dumps({"rederived": checked, "precision_bits": prec, "mismatches": bad[:20]}))
        return 1 if bad else 0
    print(__doc__)
    return 2


if __name__ == "__main__":
    sys.exit(main())
