#!/usr/bin/env python3
"""Regenerates the 'fixed' half of known_findings.json from /repo's fix: commits and the
witness table below (the 'open' half is edited by hand and never touched at run time)."""
import json, os, subprocess
HERE = os.path.dirname(os.path.dirname(os.path.abspath(__file__)))
# subject prefix -> (property, what failed; a concrete witness where one line can hold it)
W = [
 ("fix: ceil of zero", "C09", "P8E0::ceil(0x00)=0x40, P32E2::ceil(0x00000000)=0x40000000, P32E2::ceil(0xc0000000)=0 (hence trunc/fract of 0 and of -1 wrong)"),
 ("fix: mul_sub and sub_product ignored", "C05", "mul_sub / sub_product returned a*b+c for every non-zero product (P8E0 0x04.mul_sub(0x40,0x01)=0x05 want 0x03); same code in PxE1/PxE2 (C13)"),
 ("fix: P32E2::mul_add dropped sticky", "C05", "P32E2 0x60000000.mul_add(0x7ffffffd,0x5ffffffc)=0x7ffffffe want 0x7fffffff; near-tie sums one ulp off"),
 ("fix: float to posit conversion ignored", "C02", "P16E1::from_f64(0x3ec5000000000001)=0x1a want 0x1b; P16E1::from_f32(0x47840001)=0x7fc0 want 0x7fc1; also f64->P32E2"),
 ("fix: P16E1::from_i64/from_u64 shifted", "C07", "P16E1::from_i64(2)=0x4010 want 0x5000 (every value >= 2; shift-overflow panic in debug builds: C16)"),
 ("fix: P32E2::to_u32 saturated", "C07", "P32E2(0x7fb0001f).to_u32()=2147483647 want 2147547136"),
 ("fix: P32E2::to_u64 halved", "C07", "P32E2(0x7fffb000).to_u64()=0x4000000000000000 want 0x8000000000000000"),
 ("fix: P32E2::from_u64 rounded up", "C07", "P32E2::from_u64(0xfffbffffffffffff)=0x7fffc000 want 0x7fffbfff"),
 ("fix: Q32E2::is_zero / is_nar", "C04", "Q32E2 += P32E2(0x1): is_zero()=true, to_posit()=0 (sums living only in bits 64..127); also C12 round trip of P32E2 0x1..0x3"),
 ("fix: Q32E2::neg negated only", "C12", "Q32E2::neg() negated limb 0 only (wrong for every state with a non-zero lower limb)"),
 ("fix: Q32E2::to_posit lost sticky", "C04", "Q32E2 (0x80020000*0x1c00) - (0xd0000000*0x80000001): to_posit()=0x80000002 want 0x80000001; also into_two/three_posits (C12)"),
 ("fix: sampling P16E1 from Standard", "C19", "gen_range draws 0x3fff0..=0x3ffff gave P16E1 0x4000 = 1.0 (probability 2^-14 per sample)"),
 ("fix: P32E2::cbrt(0) and cbrt(NaR)", "C16", "P32E2::cbrt(0x00000000) and cbrt(0x80000000) never return (release) / overflow panic (debug); also C15, C17"),
 ("fix: PxE1/PxE2 separate_bits", "C13", "PxE1<4> 0x2 + 0xd never returns; add/sub/mul/div/fused wrong for almost all operands of widths 4..31"),
 ("fix: PxE2 mul_add/mul_sub/sub_product overwrote", "C13", "PxE2<13> 0x62.mul_add(0xfff,0x1)=0x7f400000 want 0x7f480000 (widths >= 11)"),
 ("fix: PxE2 arithmetic used underflowing", "C13", "PxE2<3> 0x1+0x1=0x28000000 want 0x20000000 (bits below the 3-bit boundary); PxE2<32> 0x7fffffde+0x80000002=0x80000003 want 0x80000002; debug panics for N=31,32 (C16)"),
 ("fix: PxE1<2>/PxE2<2> fused", "C13", "PxE2<2> 0x1.mul_add(0x3,0x0)=0x40000000 want 0xc0000000"),
 ("fix: PxE1 add/sub aligned", "C13", "PxE1<N> sums of operands in different regimes wrong (alignment 4*(kA-kB) instead of 2*(kA-kB))"),
 ("fix: PxE1 add/sub never rounded ties", "C13", "PxE1<8> 0x83+0x7a=0x83000000 want 0x84000000 (every exact tie rounded up)"),
 ("fix: PxE1 arithmetic used underflowing", "C13", "PxE1<3> 0x1+0x5=0xb0000000 want 0xa0000000; shift-overflow panic for PxE1<32> with a 30-bit regime (C16)"),
 ("fix: PxE1 fused multiply-add decoded", "C13", "PxE1<8> 0x49.mul_add(0x5d,0x9d)=0x96000000 want 0x1a000000 (~60 % of all fused results)"),
 ("fix: PxE1 fused multiply-add lost sticky", "C13", "PxE1<N>, N>=19: near-tie fused results one ulp off"),
 ("fix: PxE2::from_p32e2/from_p16e1/from_p8e0", "C14", "PxE2<3>::from_p8e0(0x00) never returns; NaR/zero sources wrong or non-terminating for all three conversions (also C16)"),
 ("fix: PxE2::from_i32 discarded", "C14", "PxE2<N>::from_i32(i32::MIN): negation overflow (debug panic, C16)"),
 ("fix: PxE2::from_i64 converted only", "C14", "PxE2<N>::from_i64(x) for |x| >= 2^32 converted x mod 2^32"),
 ("fix: PxE2::from_i32 saturation shortcut", "C14", "PxE2<11>::from_i32(2147483647)=0x7fe00000 want 0x7fc00000; 'k - N' underflow panics in debug builds (C16)"),
 ("fix: PxE2<3>::from_f64/from_f32", "C14", "PxE2<3>::from_f32(4.0)=0x50000000 want 0x40000000"),
 ("fix: rounding a Q32E2 to PxE2<N>", "C14", "PxE2<3>::from(&Q32E2) of 0x1*0x1+0x5: 0xc0000000 want 0xa0000000; sticky bits dropped for all widths"),
 ("fix: PxE1::from_u64 returned NaR", "C14", "PxE1<3>::from_u64(2^63)=0x80000000 (NaR) want 0x60000000; larger values gave a stray bit"),
 ("fix: PxE1::from_i32 was a half-converted", "C14", "PxE1<N>::from_i32 wrong for ~60 % of all values, every width; NaR for i32::MIN"),
 ("fix: PxE1::to_i32 wrapped", "C14", "PxE1<18>(0x1ffff).to_i32()=-1 want 2147483647"),
 ("fix: posit-to-PxE<32> conversions", "C16", "PxE2<32>::from_p16e1(0x0001), PxE2<32>::from_p8e0(0x01), PxE1<32>::from_p8e0(0x01): 'attempt to shift right with overflow' in overflow-checked builds"),
 ("fix: PxE2 mul_add, div and sqrt shifted", "C16", "PxE2<32> 0x1.mul_add(0x1,0x1), 0x1/0x40000000, sqrt(0x1): shift-overflow panics in overflow-checked builds"),
 ("fix: Q32E2 -> PxE2<N> shifted", "C16", "PxE2<31>::from(&Q32E2 holding minpos), PxE2<10>::from(&Q32E2 holding 0x100): overflow panics in overflow-checked builds"),
 ("fix: PxE1::from_f64/from_f32 underflowed", "C16", "PxE1<2>::from_f32(1e-45), PxE1<32>::from_f32(0x21ffffff): 'attempt to subtract with overflow' in overflow-checked builds"),
 ("fix: P16E1::sqrt relied on wrapping", "C16", "P16E1::sqrt(0x7fff) (also asinh/acosh(0x7fff)): 'attempt to subtract with overflow' in overflow-checked builds"),
 ("fix: pow2i overflowed", "C16", "P32E2::exp10(NaR), exp2 / powf / sinh / tanh of large arguments: 'attempt to shift left with overflow' in overflow-checked builds"),
 ("fix: P32E2 mul_add keeps the bit shifted out", "C05", "P32E2 0x2778b72d.mul_add(0x202fb0a5,0x47f02b0f)=0x48000000 want 0x48000001 (exact value 2+2^-27+2^-62: the last bit of the 64-bit working sum, shifted out by the carry, was not sticky; ~2^-60 of all triples; reported by two mutant-writing sub-agents, not reached by the monitors until the constructed rounding-trap generator was added)"),
 ("fix: PxE2 mul_add keeps the bit shifted out", "C13", "PxE2<32> 0x20000129.mul_add(0x251e2b19,0x47f2e1d4)=0x48000000 want 0x48000001 (same omission as P32E2 mul_add)"),
 ("fix: P32E2::powf returned 1 for powf(NaR, 0)", "C15", "P32E2::powf(NaR, 0)=0x40000000 and powf(1, NaR)=0x40000000, want NaR (the y == 0 / x == 1 shortcut ran before the NaR test); the monitor had exempted these two cases as an IEEE convention until two auditing sub-agents pointed at the statement's wording"),
 ("fix: num_traits::Float::epsilon() did not return EPSILON", "C17", "<P as Float>::epsilon() = 0x01 / 0x0006 / 0x01400000 for P8E0 / P16E1 / P32E2, the EPSILON constants are 0x02 / 0x0100 / 0x00a00000 (provided default not overridden; pointed out by an auditing sub-agent, the C17 table had no entry for it)"),
 ("fix: FloatConst::LOG2_10() and LOG10_2() were not forwarded", "C17", "<P32E2 as FloatConst>::LOG2_10() = 0x4d49a786, MathConsts::LOG2_10 = 0x4d49a785 (also P16E1 0x5a94 vs 0x5a93, P8E0 0x6a vs 0x6b; LOG10_2 P8E0 0x14 vs 0x13): provided defaults LN_10/LN_2, LN_2/LN_10 in posit arithmetic"),
 ("fix: P32E2::exp, exp2 and exp10 returned 0 for NaR", "C15", "P32E2::exp(NaR)=0, exp2(NaR)=0 (NaR orders below the underflow threshold)"),
 ("fix: PxE1::from_pxe2 added the raw", "C14", "PxE1<3>::from_pxe2(PxE2<6> 0x13)=0x40000000 want 0x60000000"),
]

def main():
    log = subprocess.run(["git", "-C", "/repo", "log", "--format=%h %s", "--reverse"], stdout=subprocess.PIPE, text=True).stdout.splitlines()
    fixes = [(l.split(" ", 1)[0], l.split(" ", 1)[1]) for l in log if l.split(" ", 1)[1].startswith("fix:")]
    fixed = []
    for h, subj in fixes:
        hit = [w for w in W if subj.startswith(w[0])]
        assert len(hit) == 1, (subj, hit)
        fixed.append(f"fixed: property={hit[0][1]} {h} {hit[0][2]}")
    path = os.path.join(HERE, "known_findings.json")
    cur = json.load(open(path)) if os.path.exists(path) else {"open": []}
    cur["comment"] = ("open = genuine defects recorded, not repaired (a check prints KNOWN-FINDING for each one it meets and exits 0; "
                      "matched by property + op + exact input tuple); fixed = repaired by a 'fix:' commit in /repo, suppresses nothing. "
                      "Never written at run time.")
    cur["fixed"] = fixed
    json.dump(cur, open(path, "w"), indent=1)
    print(len(fixed), "fixed entries")

if __name__ == "__main__":
    main()
