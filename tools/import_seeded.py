#!/usr/bin/env python3
"""Confirm a sub-agent's change independently and keep it as /verif/seeded/<id>/.

  import_seeded.py <agent dir> <i> <seeded id> <property> "<needs>" [extra check ids...]

Confirmation (all in a fresh scratch worktree of /repo's HEAD, removed afterwards):
  1. the demo passes on the unchanged tree;
  2. the patch applies, the crate builds and the existing test-suite passes with it (run twice;
     p32e2::math::mul_add::test_mul_add is flaky on the unchanged tree too and is ignored);
  3. the demo fails with the patch applied.
Only then are patch.diff, demo.rs and meta.json written.
"""
import json, os, shutil, subprocess, sys
W = "/tmp/confirm_wt"


def sh(cmd, cwd=None, env=None):
    r = subprocess.run(cmd, cwd=cwd, env=env, stdout=subprocess.PIPE, stderr=subprocess.STDOUT, text=True)
    return r.returncode, r.stdout


def suite(env):
    rc, out = sh(["cargo", "test", "--offline", "--no-fail-fast", "--lib"], cwd=W, env=env)
    failed = [l for l in out.splitlines() if l.startswith("test ") and l.endswith("FAILED")]
    failed = [l for l in failed if "mul_add::test_mul_add" not in l or "p32e2" not in l]
    summ = [l for l in out.splitlines() if l.startswith("test result")]
    return (not failed and any(" passed" in l for l in summ)), ((summ[0] if summ else out[-300:]) + " " + " ".join(failed))


def main():
    adir, i, sid, prop, needs = sys.argv[1:6]
    checks = sys.argv[6:] or [prop]
    here = os.path.dirname(os.path.dirname(os.path.abspath(__file__)))
    if os.path.exists(os.path.join(here, "seeded", sid)):
        print(f"REJECT: seeded/{sid} already exists (choose another id; nothing is overwritten)")
        return 1
    patch = os.path.join(adir, f"mutant_{i}.diff")
    demo = os.path.join(adir, f"demo_{i}.rs")
    env = dict(os.environ, CARGO_TARGET_DIR="/tmp/confirm_target", CARGO_NET_OFFLINE="true")
    sh(["git", "-C", "/repo", "worktree", "remove", "--force", W])
    rc, out = sh(["git", "-C", "/repo", "worktree", "add", "--detach", W, "HEAD"])
    assert rc == 0, out
    ran = []
    try:
        os.makedirs(os.path.join(W, "tests"), exist_ok=True)
        shutil.copy(demo, os.path.join(W, "tests", "demo.rs"))
        feat = os.environ.get("DEMO_FEATURES")
        demo_cmd = ["cargo", "test", "--offline", "--test", "demo"] + (["--features", feat] if feat else [])
        rc, out = sh(demo_cmd, cwd=W, env=env)
        ran.append(f"unchanged tree: {' '.join(demo_cmd)} -> exit {rc}")
        if rc != 0:
            print("REJECT: demo fails on the unchanged tree\n", out[-1500:])
            return 1
        rc, out = sh(["git", "apply", patch], cwd=W)
        if rc != 0:
            print("REJECT: patch does not apply", out)
            return 1
        for k in (1, 2):
            ok, summ = suite(env)
            ran.append(f"patched tree: cargo test --offline --no-fail-fast --lib (run {k}) -> {summ}")
            if not ok:
                # the randomised f64-reference tests (quire32::ops::test_quire_mul_add/_sub,
                # p32e2 mul_add) fail on the unchanged tree too, a few percent of the runs (double
                # rounding of their own reference): a failure counts only if it is reproducible
                names = [w for w in summ.split() if "::" in w]
                repro = False
                for n in names:
                    fails = 0
                    for _ in range(3):
                        rc2, out2 = sh(["cargo", "test", "--offline", "--lib", n], cwd=W, env=env)
                        fails += rc2 != 0
                    ran.append(f"patched tree: re-ran {n} three times -> {fails} failure(s)")
                    repro = repro or fails > 0
                if repro:
                    print("REJECT: existing suite fails with the patch:", summ)
                    return 1
        rc, out = sh(demo_cmd, cwd=W, env=env)
        res = [l for l in out.splitlines() if l.startswith("test result")]
        ran.append(f"patched tree: {' '.join(demo_cmd)} -> exit {rc} ({res[0] if res else ''})")
        if rc == 0:
            print("REJECT: demo passes with the patch applied")
            return 1
        dst = os.path.join(os.path.dirname(os.path.dirname(os.path.abspath(__file__))), "seeded", sid)
        os.makedirs(dst, exist_ok=True)
        shutil.copy(patch, os.path.join(dst, "patch.diff"))
        shutil.copy(demo, os.path.join(dst, "demo.rs"))
        notes = ""
        np = os.path.join(adir, "NOTES.md")
        if os.path.exists(np):
            notes = open(np).read()
        changed = [l[6:] for l in open(patch).read().splitlines() if l.startswith("+++ b/")]
        json.dump({"id": sid, "property": prop, "checks": checks, "files_changed": changed, "needs_to_manifest": needs,
                   "origin": "sub-agent given only the property text and a scratch worktree",
                   "confirmed_by": ran, "agent_notes": notes[:6000]}, open(os.path.join(dst, "meta.json"), "w"), indent=1)
        print("KEPT", sid, "\n  " + "\n  ".join(ran))
        return 0
    finally:
        sh(["git", "-C", "/repo", "worktree", "remove", "--force", W])


if __name__ == "__main__":
    sys.exit(main())
