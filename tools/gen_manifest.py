#!/usr/bin/env python3
"""Regenerates MANIFEST.json from the table below (keeps the file consistent)."""
import json, os, subprocess
HERE = os.path.dirname(os.path.dirname(os.path.abspath(__file__)))

def repo_fix_commits():
    try:
        out = subprocess.run(["git", "-C", "/repo", "log", "--format=%h %s"], stdout=subprocess.PIPE, text=True).stdout
        return [l for l in out.splitlines() if l.split(" ", 1)[1].startswith("fix:")]
    except Exception:
        return []

CHECKS = {
 "C01": ("reference-model monitor: exhaustive / hostile sweep vs exact posit oracle",
         "every a+b, a-b, a*b, a/b (const method and operator spelling) is executed on the real crate and compared bit-for-bit with an independently written exact-arithmetic oracle: exhaustively for all P8E0 pairs (both tiers) and all 2^32 P16E1 pairs (thorough), and on hostile structured samples elsewhere (quick: 2^25 per op for P16/P32; thorough: 2^31 P32 pairs per op). Held on K executions; the evidence lists K, the rounding classes and result regime lengths observed.",
         "§6 C01"),
 "C02": ("reference-model monitor: float->posit vs exact oracle, all f32 patterns in thorough",
         "from_f32/from_f64/From of the real crate compared with the exact rounding of the float's exact value: all 2^32 f32 patterns x 3 targets in thorough, hostile f32/f64 samples (posit values and midpoints +-1 float ulp, subnormals, specials, thresholds) otherwise; plus the differential from_f32(x) == from_f64(x as f64).",
         "§6 C02"),
 "C03": ("reference-model monitor: posit->float bits vs integer IEEE encoder; round-trip differentials",
         "to_f64/to_f32/f64::from bits compared with an integer-only IEEE-754 RNE encoder applied to the exact value (exactness asserted for f64, and for f32 when n<=16); round trips through f64 and through Display/FromStr must return the original pattern. Exhaustive for P8/P16 in both tiers and for all 2^32 P32 patterns in thorough.",
         "§6 C03"),
 "C04": ("history monitor: shadow exact accumulator advanced in lock-step, every event observed",
         "random histories of +=/-= in all spellings on Q8E0/Q16E1/Q32E2; after every event the bit image, is_zero, is_nar and to_posit are compared with an arbitrary-precision shadow sum; NaR stickiness and order independence (random permutation on a second quire) are monitored. Sampled histories: held on the K histories / events listed in the evidence.",
         "§6 C04"),
 "C05": ("reference-model monitor: fused ops vs exact oracle (all 2^24 P8 triples, hostile P16/P32 triples)",
         "mul_add / mul_sub / sub_product compared with one rounding of the exact a*b+-c: exhaustive for P8E0 (2^24 triples x 3 ops, both tiers), hostile triples for P16E1/P32E2 with an addend constructed near -(a*b) so that product and addend nearly cancel.",
         "§6 C05"),
 "C06": ("reference-model monitor: sqrt vs exact integer square root",
         "sqrt compared with the posit rounding of the exact root (integer square root with 400 extra bits + exactness flag): all P8, all P16 (both tiers), all 2^32 P32 inputs in thorough, 2^25 hostile P32 inputs in quick.",
         "§6 C06"),
 "C07": ("reference-model monitor: integer<->posit conversions vs exact oracle",
         "from_{i,u}{8,16,32,64,size} compared with the posit rounding of the exact integer, to_{i,u}{32,64} with round-to-nearest-even + clamping of the exact value (NaR excluded: the property only speaks of real values). All 8/16-bit integers and all P8/P16 patterns in both tiers; all 2^32 i32/u32 values and all 2^32 P32 patterns in thorough; hostile 64-bit values (powers of two, k-bit windows, rounding-midpoint neighbourhoods per binade, type extremes).",
         "§6 C07"),
 "C08": ("reference-model monitor: width conversions vs exact re-encoding",
         "six directed conversions in three spellings each compared with encode_target(decode_source(p)), plus widen-then-narrow identity; exhaustive for 8/16-bit sources (both tiers) and for all 2^32 P32 sources in thorough.",
         "§6 C08"),
 "C09": ("reference-model monitor: integer-rounding functions vs exact dyadic arithmetic",
         "round/floor/ceil/trunc/fract compared with the exact functions on the decoded dyadic value; exhaustive P8/P16 in both tiers, all 2^32 P32 inputs in thorough.",
         "§6 C09"),
 "C10": ("reference-model monitor: order / sign / selection vs exact comparison of decoded values",
         "all comparison spellings, min/max/clamp, neg/abs/signum/copysign and the class predicates compared with the order of the exactly decoded values (NaR below everything); results must be bit-identical to the selected input. P8: all pairs and all 2^24 clamp triples; P16: all 2^32 pairs in thorough; P32 hostile pairs.",
         "§6 C10"),
 "C13": ("reference-model monitor: all 62 generic-width instantiations vs the generic (n,es) oracle",
         "for every N in 2..=32 and both exponent sizes, + - * / mul_add mul_sub sub_product sqrt(es=2) round are run on N-bit patterns left-aligned in 32 bits and compared with the N-bit posit rounding shifted left by 32-N (so non-zero low bits can never match); exhaustive pairs for N <= 10 (quick) / 12 (thorough), hostile tuples otherwise; PxE2<32> vs P32E2 and PxE1<16> vs P16E1 differentially.",
         "§6 C13"),
 "C14": ("reference-model monitor: generic-width conversions vs the generic oracle, all 31x31 width pairs",
         "float, integer, fixed-width-posit, Q32E2 and generic-to-generic conversions (all 961 width pairs x 3 directions, every spelling) compared with the exact / correctly rounded oracle value for the target (n,es); exhaustive when the source has <= 16 bits, hostile samples otherwise.",
         "§6 C14"),
 "C15": ("two-stage reference-model monitor: glibc libm filter (under-estimating) + mpmath arbiter for suspects",
         "each P32E2 elementary function is run inside the domain the crate states for it; stage 1 measures the distance of the result's encoding from the interval of encodings that are correct roundings of libm's value +-2^-45 (it can only under-estimate the error); every case over the stated ULP bound, every NaR/real mismatch and a sample of passing cases go to an mpmath arbiter (300 bits, exact rational special cases, saturating posit semantics) which alone can confirm a violation. quick: 2^22 inputs + argument-reduction / power-of-two / domain-end landmarks per function; thorough: every 16th pattern of each unary domain, 2^29 pairs per binary function.",
         "§6 C15"),
 "C16": ("totality + differential monitor: op catalogue in overflow-checked and optimised builds, heartbeat watchdog, Miri",
         "every registered public operation that is not an explicit todo!() stub (about 6700 entries: fixed types, all 62 generic instantiations, all 961 x 3 width pairs, quires, polynomials, linalg / simba / approx impls, every spelling) is run on one deterministic input list (cross product of type extremes + hostile tuples) in a release build (overflow-checks off), a 'checked' build (overflow-checks + debug-assertions on) and, in thorough, a dev build; any panic (arithmetic / shift overflow, index, assert), any call that does not return within 20 s (confirmed in a fresh process) and any difference of result bits between builds is a violation. Miri interprets a reduced catalogue (quick: the ops that reach the crate's unsafe code; thorough: every op, 33 processes).",
         "§6 C16"),
 "C17": ("differential monitor: every spelling vs the inherent operation, both real code",
         "operator traits, op-assign forms, From/Into, num_traits (Zero One Num Signed Float FloatConst Bounded FromPrimitive ToPrimitive NumCast), Quire/AssociatedQuire trait methods and the type aliases are executed side by side with the inherent operation on the same inputs; equality of bits is the oracle, a panic on one side only is a disagreement. Exhaustive for 8/16-bit arguments, hostile samples otherwise.",
         "§6 C17"),
 "C18": ("reference-model monitor: staged exact-sum oracle for poly1..18, poly3a, poly4a x 5 coefficient kinds",
         "x.polyN(c) for all 20 polynomials and coefficient kinds P and [P;1..4] compared with the documented construction evaluated exactly: individually rounded powers, one exact sum + one rounding per quire stage, stage results fed forward. Hostile (x, coefficient array) samples: 100 cells per type.",
         "§6 C18"),
 "C19": ("invariant monitor on steered and seeded generator streams",
         "every value of every gen_range the three Distribution impls call is forced through a steered RngCore (P8: all 64, P16: all 2^18, P32: all 2^27 x 4 in thorough, a seed-rotated 1/32 in quick; the steering itself is self-checked on every run) and long seeded streams are drawn; each sample must be a real posit with 0 <= p < 1 by the exact order, without panicking; evidence counts the distinct sample values observed.",
         "§6 C19"),
 "C11": ("reference-model monitor: exhaustive comparison with committed mpmath tables (re-derived on every run)",
         "all 2^16 P16E1 inputs of exp, exp2, ln, log2, sin_pi, cos_pi, tan_pi, asin_pi, acos_pi, atan_pi and all 2^8 P8E0 inputs of exp, ln are run on the real crate and compared with correctly rounded reference tables (655 872 results, exhaustive in both tiers). The tables are generated by tools/gen_tables.py with mpmath at 400 bits, rational results from an exact-case table, Ziv-style margin check (no undecided entry); their sha256 is verified on every run, quick re-derives a seed-chosen 2 % at 320 bits, thorough regenerates everything and demands byte equality.",
         "§6 C11"),
 "C12": ("history monitor + exhaustive round trip: state operations judged against the decoded actual state",
         "p -> quire -> p round trip (value, and the quire's exact fixed-point image) exhaustively for P8/P16 (P32: all 2^32 in thorough); neg/clear/from_bits(to_bits)/into_two_posits/into_three_posits judged on every state reached by generated accumulate histories, relative to the exact value decoded from the quire's actual bit image.",
         "§6 C12"),
}
NOT_YET = {
}
NOTE = ("trusted: rustc/LLVM + CPU for the harness' integer code; the exact-arithmetic oracle (harness/src/big.rs, val.rs, fast.rs; "
        "two independent encoders and a u128 fast path cross-checked on every run, every candidate violation re-judged by the slow BigUint path); "
        "sampled sub-spaces are samples")

def main():
    checks = []
    for pid in sorted(CHECKS):
        tech, text, ref = CHECKS[pid]
        checks.append({
            "property_id": pid,
            "quick_cmd": f"./check {pid} quick",
            "thorough_cmd": f"./check {pid} thorough",
            "evidence_file": f"/verif/evidence/{pid}.json",
            "replay_cmd_template": "./check replay {path}",
            "engine": "spverif",
            "level_claimed": {"category": "exploration", "text": text, "design_ref": ref},
            "level_note": NOTE + EXTRA_NOTE.get(pid, ""),
            "technique": "runtime monitoring: " + tech,
        })
    m = {
        "version": 1,
        "setup_cmd": "./check setup",
        "hooks": {
            "guard": "softposit_verif",
            "enable": "no source hooks are needed: every property is observable at the public API; checks build /repo as a path dependency of /verif/harness (cargo build --release --offline, plus the 'checked' profile for C16)",
            "baseline_off_cmd": "cd /repo && cargo test --workspace --no-fail-fast --offline",
            "source_commits": [],
            "add_only": True,
        },
        "engines": [{
            "name": "spverif",
            "path": "/verif/harness",
            "serves_properties": sorted(CHECKS),
            "kind_free_text": "Rust monitor binary (exact-arithmetic reference model, history monitors, differential monitors, totality watchdog) driven by /verif/check",
        }],
        "checks": checks,
        "notes": "Technique family: runtime monitoring and sanitizers. Exit 0 = held on everything explored, 1 = VIOLATION line(s), 2 = inconclusive/infrastructure. "
                 "Genuine defects repaired in /repo ('fix:' commits): " + "; ".join(repo_fix_commits()),
        "not_applicable": [{"property_id": k, "reason": v} for k, v in sorted(NOT_YET.items()) if k not in CHECKS],
    }
    json.dump(m, open(os.path.join(HERE, "MANIFEST.json"), "w"), indent=1)

EXTRA_NOTE = {"C11": "; additionally trusted: mpmath 1.3 (python3-vt) for the transcendental values, the exact-case table for rational results", "C15": "; additionally trusted: mpmath 1.3 for every confirmed violation; glibc libm only as a filter (it can hide, never create, a violation); one open known finding KF-C15-powf (error ceiling 6 ulp)", "C16": "; termination is decided as returns within 20 s (bounded progress); todo!() panics count as stubs only when they come from a (file, function) pair listed in tools/stubs.json; build-profile independence is checked for the profiles named, on this compiler and CPU"}
if __name__ == "__main__":
    main()
