#!/bin/bash
# Line coverage of the crate's sources under the monitors' workloads (evidence of reach, not a verdict).
#   tools/coverage.sh [out-dir]      (default: /verif/out/coverage)
# Builds the harness with -Cinstrument-coverage (nightly toolchain, whose llvm-tools match),
# runs every property's quick workload with budgets divided by 2^SHIFT (SPVERIF_SCALE_SHIFT,
# default 7) on few threads (the counters make many-threaded runs crawl), merges the profiles
# and writes
#   summary.txt           llvm-cov report restricted to the crate's sources
#   uncovered_lines.txt   lines of the crate that no workload executed
# The result says which code the workloads never drove - the blind spot of runtime monitoring.
set -u
HERE="$(cd "$(dirname "$0")/.." && pwd)"
OUT="${1:-$HERE/out/coverage}"
SHIFT="${SPVERIF_SCALE_SHIFT:-7}"
REPO="${VERIF_REPO:-/repo}"
export CARGO_NET_OFFLINE=true
mkdir -p "$OUT" && rm -f "$OUT"/*.profraw
sed "s#@REPO@#$REPO#g" "$HERE/harness/Cargo.toml.in" > "$HERE/harness/Cargo.toml"
cp "$REPO/Cargo.lock" "$HERE/harness/Cargo.lock" 2>/dev/null || true
( cd "$HERE/harness" && RUSTFLAGS="-Cinstrument-coverage" cargo +nightly build --release --offline --features pairs \
    --bin spverif --target-dir target/cov 2>&1 | tail -1 ) || exit 2
BIN="$HERE/harness/target/cov/release/spverif"
TOOLS="$(rustc +nightly --print sysroot)/lib/rustlib/x86_64-unknown-linux-gnu/bin"
export SPVERIF_TABLES="$HERE/oracle_tables" SPVERIF_SCALE_SHIFT="$SHIFT"
for p in C01 C02 C03 C04 C05 C06 C07 C08 C09 C10 C11 C12 C13 C14 C15 C17 C18 C19; do
  LLVM_PROFILE_FILE="$OUT/$p-%p.profraw" timeout 3600 "$BIN" run "$p" --tier quick --seed 1 --threads 4 \
      --report "$OUT/$p.report.json" 2>&1 | tail -1 | cut -c1-120
done
LLVM_PROFILE_FILE="$OUT/C16-%p.profraw" timeout 3600 "$BIN" catalogue --seed 1 --count 64 --threads 4 --out "$OUT/C16.cat.json" | tail -1
"$TOOLS/llvm-profdata" merge -sparse "$OUT"/*.profraw -o "$OUT/all.profdata" || exit 2
IGN='(harness|registry|rustc|library)/'
"$TOOLS/llvm-cov" report "$BIN" -instr-profile="$OUT/all.profdata" --ignore-filename-regex="$IGN" > "$OUT/summary.txt" 2>/dev/null
"$TOOLS/llvm-cov" show "$BIN" -instr-profile="$OUT/all.profdata" --ignore-filename-regex="$IGN" \
    -show-line-counts-or-regions=false -show-instantiations=false 2>/dev/null > "$OUT/show.txt"
python3 - "$OUT" <<'PY'
import re, sys
out = sys.argv[1]
cur = None
miss = {}
for l in open(out + "/show.txt"):
    m = re.match(r"^(/\S+/src/\S+):$", l.strip())
    if m:
        cur = m.group(1)
        continue
    m = re.match(r"^\s*(\d+)\|\s*0\|(.*)$", l)
    if m and cur:
        miss.setdefault(cur, []).append((int(m.group(1)), m.group(2).rstrip()))
with open(out + "/uncovered_lines.txt", "w") as w:
    w.write("# lines of the crate that no monitor workload executed (instantiations merged)\n")
    for f in sorted(miss):
        w.write(f"== {f} ({len(miss[f])} lines)\n")
        for n, t in miss[f]:
            w.write(f"{n}\t{t[:120]}\n")
print(sum(len(v) for v in miss.values()), "uncovered lines in", len(miss), "files")
PY
rm -f "$OUT"/*.profraw "$OUT/show.txt" "$OUT/all.profdata" "$OUT"/*.report.json "$OUT/C16.cat.json"
tail -1 "$OUT/summary.txt"
