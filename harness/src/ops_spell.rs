//! C17: every spelling of one operation gives the same bits as the inherent operation of the
//! concrete type. Differential entries: `run` is one spelling, `slow` the inherent one; both
//! are real crate code, equality of bits is the oracle.

use crate::gen::Kind;
use crate::ops::{Op, OutKind};
use crate::orc;
use crate::pt::{PT, QT};
use softposit::{P16E1, P32E2, P8E0, Q16E1, Q32E2, Q8E0};

fn nm<T: PT>(s: &str) -> String {
    format!("{}::spell::{}", T::NAME, s)
}
fn fcat(c: core::num::FpCategory) -> u64 {
    use core::num::FpCategory::*;
    match c {
        Zero => 0,
        Nan => 1,
        Normal => 2,
        Infinite => 3,
        Subnormal => 4,
    }
}

macro_rules! un {
    ($ops:ident, $T:ident, $name:expr, $a:expr, $b:expr) => {
        $ops.push(
            Op::new(nm::<$T>($name), &["C17"], &[Kind::Pat($T::F)], OutKind::Raw, |x, _, _| {
                let f: fn($T) -> u64 = $a;
                f($T::fb(x))
            })
            .slow(|x, _, _| {
                let g: fn($T) -> u64 = $b;
                Some(g($T::fb(x)))
            })
            .weight(0.25),
        );
    };
}
macro_rules! bin {
    ($ops:ident, $T:ident, $name:expr, $a:expr, $b:expr) => {
        $ops.push(
            Op::new(
                nm::<$T>($name),
                &["C17"],
                &[Kind::Pat($T::F), Kind::Pat($T::F)],
                OutKind::Raw,
                |x, y, _| {
                    let f: fn($T, $T) -> u64 = $a;
                    f($T::fb(x), $T::fb(y))
                },
            )
            .slow(|x, y, _| {
                let g: fn($T, $T) -> u64 = $b;
                Some(g($T::fb(x), $T::fb(y)))
            })
            .weight(0.25),
        );
    };
}
macro_rules! nul {
    ($ops:ident, $T:ident, $name:expr, $a:expr, $b:expr) => {
        $ops.push(
            Op::new(nm::<$T>($name), &["C17"], &[], OutKind::Raw, |_, _, _| {
                let f: fn() -> u64 = $a;
                f()
            })
            .slow(|_, _, _| {
                let g: fn() -> u64 = $b;
                Some(g())
            }),
        );
    };
}
macro_rules! from_int_spell {
    ($ops:ident, $T:ident, $It:ty, $bits:expr, $signed:expr, $name:literal, $inh:ident, $fp:ident) => {
        $ops.push(
            Op::new(
                nm::<$T>(concat!("From<", $name, ">")),
                &["C17"],
                &[Kind::Int { bits: $bits, signed: $signed, f: $T::F }],
                OutKind::Raw,
                |x, _, _| <$T as From<$It>>::from(x as $It).tb(),
            )
            .slow(|x, _, _| Some($T::$inh(x as $It).tb()))
            .weight(0.25),
        );
        $ops.push(
            Op::new(
                nm::<$T>(concat!("FromPrimitive::from_", $name)),
                &["C17"],
                &[Kind::Int { bits: $bits, signed: $signed, f: $T::F }],
                OutKind::Raw,
                |x, _, _| match <$T as num_traits::FromPrimitive>::$fp(x as $It) {
                    Some(v) => v.tb(),
                    None => u64::MAX,
                },
            )
            .slow(|x, _, _| Some($T::$inh(x as $It).tb()))
            .weight(0.25),
        );
    };
}
macro_rules! into_int_spell {
    ($ops:ident, $T:ident, $It:ty, $name:literal, $inh:ident) => {
        un!($ops, $T, $name, |a| <$T as Into<$It>>::into(a) as i128 as u64, |a| a.$inh() as i128 as u64);
    };
}

fn spell_common<T: PT + num_traits::Bounded>(ops: &mut Vec<Op>) {
    use num_traits::{Bounded, Float, FloatConst, FromPrimitive, Num, NumCast, One, Signed, ToPrimitive, Zero};
    // operator traits vs inherent const methods
    bin!(ops, T, "op+ vs add", |a, b| (a + b).tb(), |a, b| a.i_add(b).tb());
    bin!(ops, T, "op- vs sub", |a, b| (a - b).tb(), |a, b| a.i_sub(b).tb());
    bin!(ops, T, "op* vs mul", |a, b| (a * b).tb(), |a, b| a.i_mul(b).tb());
    bin!(ops, T, "op/ vs div", |a, b| (a / b).tb(), |a, b| a.i_div(b).tb());
    bin!(ops, T, "op% vs rem", |a, b| (a % b).tb(), |a, b| a.i_rem(b).tb());
    un!(ops, T, "unary- vs neg", |a| (-a).tb(), |a| a.i_neg().tb());
    bin!(ops, T, "+= vs add", |mut a, b| { a += b; a.tb() }, |a, b| a.i_add(b).tb());
    bin!(ops, T, "-= vs sub", |mut a, b| { a -= b; a.tb() }, |a, b| a.i_sub(b).tb());
    bin!(ops, T, "*= vs mul", |mut a, b| { a *= b; a.tb() }, |a, b| a.i_mul(b).tb());
    bin!(ops, T, "/= vs div", |mut a, b| { a /= b; a.tb() }, |a, b| a.i_div(b).tb());
    bin!(ops, T, "%= vs rem", |mut a, b| { a %= b; a.tb() }, |a, b| a.i_rem(b).tb());
    // comparisons: trait operators vs inherent
    bin!(ops, T, "== vs eq", |a, b| (a == b) as u64, |a, b| a.i_eq(b) as u64);
    bin!(ops, T, "< vs lt", |a, b| (a < b) as u64, |a, b| a.i_lt(b) as u64);
    bin!(ops, T, "<= vs le", |a, b| (a <= b) as u64, |a, b| a.i_le(b) as u64);
    bin!(ops, T, "> vs gt", |a, b| (a > b) as u64, |a, b| a.i_gt(b) as u64);
    bin!(ops, T, ">= vs ge", |a, b| (a >= b) as u64, |a, b| a.i_ge(b) as u64);
    bin!(ops, T, "Ord::cmp vs cmp", |a, b| orc::ord_code(Ord::cmp(&a, &b)), |a, b| orc::ord_code(a.i_cmp(b)));
    bin!(ops, T, "Ord::max vs max", |a, b| Ord::max(a, b).tb(), |a, b| a.i_max(b).tb());
    bin!(ops, T, "Ord::min vs min", |a, b| Ord::min(a, b).tb(), |a, b| a.i_min(b).tb());

    // From / Into, FromPrimitive
    from_int_spell!(ops, T, i8, 8, true, "i8", i_from_i8, from_i8);
    from_int_spell!(ops, T, i16, 16, true, "i16", i_from_i16, from_i16);
    from_int_spell!(ops, T, i32, 32, true, "i32", i_from_i32, from_i32);
    from_int_spell!(ops, T, i64, 64, true, "i64", i_from_i64, from_i64);
    from_int_spell!(ops, T, u8, 8, false, "u8", i_from_u8, from_u8);
    from_int_spell!(ops, T, u16, 16, false, "u16", i_from_u16, from_u16);
    from_int_spell!(ops, T, u32, 32, false, "u32", i_from_u32, from_u32);
    from_int_spell!(ops, T, u64, 64, false, "u64", i_from_u64, from_u64);
    ops.push(
        Op::new(nm::<T>("From<isize>"), &["C17"], &[Kind::Int { bits: 64, signed: true, f: T::F }], OutKind::Raw,
                |x, _, _| <T as From<isize>>::from(x as isize).tb())
            .slow(|x, _, _| Some(T::i_from_isize(x as isize).tb()))
            .weight(0.25),
    );
    ops.push(
        Op::new(nm::<T>("From<usize>"), &["C17"], &[Kind::Int { bits: 64, signed: false, f: T::F }], OutKind::Raw,
                |x, _, _| <T as From<usize>>::from(x as usize).tb())
            .slow(|x, _, _| Some(T::i_from_usize(x as usize).tb()))
            .weight(0.25),
    );
    // isize/usize forward to the 64-bit conversions
    ops.push(
        Op::new(nm::<T>("from_isize vs from_i64"), &["C17"], &[Kind::Int { bits: 64, signed: true, f: T::F }], OutKind::Raw,
                |x, _, _| T::i_from_isize(x as isize).tb())
            .slow(|x, _, _| Some(T::i_from_i64(x as i64).tb()))
            .weight(0.25),
    );
    ops.push(
        Op::new(nm::<T>("from_usize vs from_u64"), &["C17"], &[Kind::Int { bits: 64, signed: false, f: T::F }], OutKind::Raw,
                |x, _, _| T::i_from_usize(x as usize).tb())
            .slow(|x, _, _| Some(T::i_from_u64(x).tb()))
            .weight(0.25),
    );
    ops.push(
        Op::new(nm::<T>("from_i8 vs from_i32"), &["C17"], &[Kind::Int { bits: 8, signed: true, f: T::F }], OutKind::Raw,
                |x, _, _| T::i_from_i8(x as i8).tb())
            .slow(|x, _, _| Some(T::i_from_i32(x as i8 as i32).tb())),
    );
    ops.push(
        Op::new(nm::<T>("from_i16 vs from_i32"), &["C17"], &[Kind::Int { bits: 16, signed: true, f: T::F }], OutKind::Raw,
                |x, _, _| T::i_from_i16(x as i16).tb())
            .slow(|x, _, _| Some(T::i_from_i32(x as i16 as i32).tb())),
    );
    ops.push(
        Op::new(nm::<T>("from_u8 vs from_u32"), &["C17"], &[Kind::Int { bits: 8, signed: false, f: T::F }], OutKind::Raw,
                |x, _, _| T::i_from_u8(x as u8).tb())
            .slow(|x, _, _| Some(T::i_from_u32(x as u8 as u32).tb())),
    );
    ops.push(
        Op::new(nm::<T>("from_u16 vs from_u32"), &["C17"], &[Kind::Int { bits: 16, signed: false, f: T::F }], OutKind::Raw,
                |x, _, _| T::i_from_u16(x as u16).tb())
            .slow(|x, _, _| Some(T::i_from_u32(x as u16 as u32).tb())),
    );
    into_int_spell!(ops, T, i8, "Into<i8> vs to_i8", i_to_i8);
    into_int_spell!(ops, T, i16, "Into<i16> vs to_i16", i_to_i16);
    into_int_spell!(ops, T, i32, "Into<i32> vs to_i32", i_to_i32);
    into_int_spell!(ops, T, i64, "Into<i64> vs to_i64", i_to_i64);
    into_int_spell!(ops, T, isize, "Into<isize> vs to_isize", i_to_isize);
    into_int_spell!(ops, T, u8, "Into<u8> vs to_u8", i_to_u8);
    into_int_spell!(ops, T, u16, "Into<u16> vs to_u16", i_to_u16);
    into_int_spell!(ops, T, u32, "Into<u32> vs to_u32", i_to_u32);
    into_int_spell!(ops, T, u64, "Into<u64> vs to_u64", i_to_u64);
    into_int_spell!(ops, T, usize, "Into<usize> vs to_usize", i_to_usize);
    // narrow to_* forward to the wide ones by truncation (documented forwarding in macros.rs)
    un!(ops, T, "to_i8 vs to_i32 as i8", |a| a.i_to_i8() as i128 as u64, |a| (a.i_to_i32() as i8) as i128 as u64);
    un!(ops, T, "to_i16 vs to_i32 as i16", |a| a.i_to_i16() as i128 as u64, |a| (a.i_to_i32() as i16) as i128 as u64);
    un!(ops, T, "to_u8 vs to_u32 as u8", |a| a.i_to_u8() as u64, |a| (a.i_to_u32() as u8) as u64);
    un!(ops, T, "to_u16 vs to_u32 as u16", |a| a.i_to_u16() as u64, |a| (a.i_to_u32() as u16) as u64);
    un!(ops, T, "to_isize vs to_i64", |a| a.i_to_isize() as i128 as u64, |a| a.i_to_i64() as i128 as u64);
    un!(ops, T, "to_usize vs to_u64", |a| a.i_to_usize() as u64, |a| a.i_to_u64());
    // floats
    ops.push(
        Op::new(nm::<T>("From<f32> vs from_f32"), &["C17"], &[Kind::F32(T::F)], OutKind::Raw,
                |x, _, _| <T as From<f32>>::from(f32::from_bits(x as u32)).tb())
            .slow(|x, _, _| Some(T::i_from_f32(f32::from_bits(x as u32)).tb()))
            .weight(0.25),
    );
    ops.push(
        Op::new(nm::<T>("From<f64> vs from_f64"), &["C17"], &[Kind::F64(T::F)], OutKind::Raw,
                |x, _, _| <T as From<f64>>::from(f64::from_bits(x)).tb())
            .slow(|x, _, _| Some(T::i_from_f64(f64::from_bits(x)).tb()))
            .weight(0.25),
    );
    ops.push(
        Op::new(nm::<T>("FromPrimitive::from_f32 vs from_f32"), &["C17"], &[Kind::F32(T::F)], OutKind::Raw,
                |x, _, _| <T as FromPrimitive>::from_f32(f32::from_bits(x as u32)).map(|v| v.tb()).unwrap_or(u64::MAX))
            .slow(|x, _, _| Some(T::i_from_f32(f32::from_bits(x as u32)).tb()))
            .weight(0.25),
    );
    ops.push(
        Op::new(nm::<T>("FromPrimitive::from_f64 vs from_f64"), &["C17"], &[Kind::F64(T::F)], OutKind::Raw,
                |x, _, _| <T as FromPrimitive>::from_f64(f64::from_bits(x)).map(|v| v.tb()).unwrap_or(u64::MAX))
            .slow(|x, _, _| Some(T::i_from_f64(f64::from_bits(x)).tb()))
            .weight(0.25),
    );
    ops.push(
        Op::new(nm::<T>("NumCast::from(f64) vs from_f64"), &["C17"], &[Kind::F64(T::F)], OutKind::Raw,
                |x, _, _| <T as NumCast>::from(f64::from_bits(x)).map(|v| v.tb()).unwrap_or(u64::MAX))
            .slow(|x, _, _| Some(T::i_from_f64(f64::from_bits(x)).tb()))
            .weight(0.25),
    );
    ops.push(
        Op::new(nm::<T>("NumCast::from(i64) vs from_f64(i64 as f64)"), &["C17"], &[Kind::Int { bits: 64, signed: true, f: T::F }], OutKind::Raw,
                |x, _, _| <T as NumCast>::from(x as i64).map(|v| v.tb()).unwrap_or(u64::MAX))
            .slow(|x, _, _| Some(T::i_from_f64(x as i64 as f64).tb()))
            .weight(0.25)
            .note("NumCast::from is documented (macros.rs) as n.to_f64().map(into)"),
    );
    un!(ops, T, "Into<f32> vs to_f32", |a| orc::canon_f32(<T as Into<f32>>::into(a).to_bits()) as u64,
        |a| orc::canon_f32(a.i_to_f32().to_bits()) as u64);
    un!(ops, T, "Into<f64> vs to_f64", |a| orc::canon_f64(<T as Into<f64>>::into(a).to_bits()),
        |a| orc::canon_f64(a.i_to_f64().to_bits()));
    un!(ops, T, "ToPrimitive::to_f64 vs to_f64",
        |a| orc::canon_f64(ToPrimitive::to_f64(&a).map(|v| v.to_bits()).unwrap_or(1)),
        |a| orc::canon_f64(a.i_to_f64().to_bits()));
    un!(ops, T, "ToPrimitive::to_i64 vs to_i64", |a| ToPrimitive::to_i64(&a).map(|v| v as u64).unwrap_or(0xdead),
        |a| a.i_to_i64() as u64);
    un!(ops, T, "ToPrimitive::to_u64 vs to_u64", |a| ToPrimitive::to_u64(&a).unwrap_or(0xdead), |a| a.i_to_u64());
    // text
    un!(ops, T, "Num::from_str_radix(10) vs FromStr",
        |a| { let s = a.to_string(); <T as Num>::from_str_radix(&s, 10).map(|v| v.tb()).unwrap_or(u64::MAX) },
        |a| { let s = a.to_string(); s.parse::<T>().map(|v| v.tb()).unwrap_or(u64::MAX - 1) });
    // (Two entries were removed here: "FromStr vs from_f64(parse f64)" and "Display vs f64 Display".
    // They compared the text path with one particular way of implementing it, which C17 does not
    // state - a Display that prints `{:e}` is just as good. The text round trip itself is C03's.)

    // Zero / One / Bounded / constants
    nul!(ops, T, "Zero::zero", || <T as Zero>::zero().tb(), || T::c_zero().tb());
    nul!(ops, T, "One::one", || <T as One>::one().tb(), || T::c_one().tb());
    nul!(ops, T, "Bounded::min_value", || <T as Bounded>::min_value().tb(), || T::c_min().tb());
    nul!(ops, T, "Bounded::max_value", || <T as Bounded>::max_value().tb(), || T::c_max().tb());
    nul!(ops, T, "Float::min_value", || <T as Float>::min_value().tb(), || T::c_min().tb());
    nul!(ops, T, "Float::max_value", || <T as Float>::max_value().tb(), || T::c_max().tb());
    nul!(ops, T, "Float::min_positive_value", || <T as Float>::min_positive_value().tb(), || T::c_min_positive().tb());
    nul!(ops, T, "Float::epsilon", || <T as Float>::epsilon().tb(), || T::c_epsilon().tb());
    nul!(ops, T, "Float::nan", || <T as Float>::nan().tb(), || T::c_nar().tb());
    nul!(ops, T, "Float::infinity", || <T as Float>::infinity().tb(), || T::c_nar().tb());
    nul!(ops, T, "Float::neg_infinity", || <T as Float>::neg_infinity().tb(), || T::c_nar().tb());
    nul!(ops, T, "Float::neg_zero", || <T as Float>::neg_zero().tb(), || T::c_zero().tb());
    un!(ops, T, "Zero::is_zero vs is_zero", |a| Zero::is_zero(&a) as u64, |a| a.i_is_zero() as u64);
    un!(ops, T, "One::is_one vs == ONE", |a| One::is_one(&a) as u64, |a| a.i_eq(T::c_one()) as u64);
    macro_rules! fconst {
        ($name:ident) => {
            nul!(ops, T, concat!("FloatConst::", stringify!($name)),
                 || <T as FloatConst>::$name().tb(), || <T as softposit::MathConsts>::$name.tb());
        };
    }
    fconst!(E);
    fconst!(FRAC_1_PI);
    fconst!(FRAC_1_SQRT_2);
    fconst!(FRAC_2_PI);
    fconst!(FRAC_2_SQRT_PI);
    fconst!(FRAC_PI_2);
    fconst!(FRAC_PI_3);
    fconst!(FRAC_PI_4);
    fconst!(FRAC_PI_6);
    fconst!(FRAC_PI_8);
    fconst!(LN_10);
    fconst!(LN_2);
    fconst!(LOG10_2);
    fconst!(LOG2_10);
    fconst!(LOG10_E);
    fconst!(LOG2_E);
    fconst!(PI);
    fconst!(SQRT_2);

    // Signed
    un!(ops, T, "Signed::abs vs abs", |a| Signed::abs(&a).tb(), |a| a.i_abs().tb());
    un!(ops, T, "Signed::signum vs signum", |a| Signed::signum(&a).tb(), |a| a.i_signum().tb());
    un!(ops, T, "Signed::is_negative vs is_sign_negative", |a| Signed::is_negative(&a) as u64, |a| a.i_is_sign_negative() as u64);
    un!(ops, T, "Signed::is_positive vs is_sign_positive", |a| Signed::is_positive(&a) as u64, |a| a.i_is_sign_positive() as u64);
    bin!(ops, T, "Signed::abs_sub vs (a<=b ? 0 : a-b)", |a, b| Signed::abs_sub(&a, &b).tb(),
         |a, b| if a.i_le(b) { T::c_zero().tb() } else { a.i_sub(b).tb() });

    // Float: forwarding methods that exist for all three types
    un!(ops, T, "Float::floor vs floor", |a| Float::floor(a).tb(), |a| a.i_floor().tb());
    un!(ops, T, "Float::ceil vs ceil", |a| Float::ceil(a).tb(), |a| a.i_ceil().tb());
    un!(ops, T, "Float::round vs round", |a| Float::round(a).tb(), |a| a.i_round().tb());
    un!(ops, T, "Float::trunc vs trunc", |a| Float::trunc(a).tb(), |a| a.i_trunc().tb());
    un!(ops, T, "Float::fract vs fract", |a| Float::fract(a).tb(), |a| a.i_fract().tb());
    un!(ops, T, "Float::abs vs abs", |a| Float::abs(a).tb(), |a| a.i_abs().tb());
    un!(ops, T, "Float::signum vs signum", |a| Float::signum(a).tb(), |a| a.i_signum().tb());
    un!(ops, T, "Float::sqrt vs sqrt", |a| Float::sqrt(a).tb(), |a| a.i_sqrt().tb());
    un!(ops, T, "Float::recip vs recip", |a| Float::recip(a).tb(), |a| a.i_recip().tb());
    un!(ops, T, "Float::is_nan vs is_nan", |a| Float::is_nan(a) as u64, |a| a.i_is_nan() as u64);
    un!(ops, T, "Float::is_infinite vs is_infinite", |a| Float::is_infinite(a) as u64, |a| a.i_is_infinite() as u64);
    un!(ops, T, "Float::is_finite vs is_finite", |a| Float::is_finite(a) as u64, |a| a.i_is_finite() as u64);
    un!(ops, T, "Float::is_normal vs is_normal", |a| Float::is_normal(a) as u64, |a| a.i_is_normal() as u64);
    un!(ops, T, "Float::classify vs classify", |a| fcat(Float::classify(a)), |a| fcat(a.i_classify()));
    un!(ops, T, "Float::is_sign_positive vs is_sign_positive", |a| Float::is_sign_positive(a) as u64, |a| a.i_is_sign_positive() as u64);
    un!(ops, T, "Float::is_sign_negative vs is_sign_negative", |a| Float::is_sign_negative(a) as u64, |a| a.i_is_sign_negative() as u64);
    un!(ops, T, "Float::asinh vs asinh", |a| Float::asinh(a).tb(), |a| a.i_asinh().tb());
    un!(ops, T, "Float::acosh vs acosh", |a| Float::acosh(a).tb(), |a| a.i_acosh().tb());
    bin!(ops, T, "Float::max vs max", |a, b| Float::max(a, b).tb(), |a, b| a.i_max(b).tb());
    bin!(ops, T, "Float::min vs min", |a, b| Float::min(a, b).tb(), |a, b| a.i_min(b).tb());
    ops.push(
        Op::new(nm::<T>("Float::mul_add vs mul_add"), &["C17"], &[Kind::Pat(T::F), Kind::Pat(T::F), Kind::Pat(T::F)], OutKind::Raw,
                |x, y, z| Float::mul_add(T::fb(x), T::fb(y), T::fb(z)).tb())
            .slow(|x, y, z| Some(T::fb(x).i_mul_add(T::fb(y), T::fb(z)).tb()))
            .weight(0.25),
    );
    // helpers defined in terms of other operations (macros.rs / math.rs)
    un!(ops, T, "recip vs ONE/x", |a| a.i_recip().tb(), |a| T::c_one().i_div(a).tb());
    bin!(ops, T, "rem vs a - trunc(a/b)*b", |a, b| a.i_rem(b).tb(), |a, b| a.i_sub(a.i_div(b).i_trunc().i_mul(b)).tb());
    un!(ops, T, "trunc vs (x>0 ? floor : ceil)", |a| a.i_trunc().tb(),
        |a| if a.i_gt(T::c_zero()) { a.i_floor().tb() } else { a.i_ceil().tb() });
    un!(ops, T, "fract vs x - trunc(x)", |a| a.i_fract().tb(), |a| a.i_sub(a.i_trunc()).tb());
    un!(ops, T, "abs vs (neg ? -x : x)", |a| a.i_abs().tb(), |a| if a.i_is_sign_negative() { a.i_neg().tb() } else { a.tb() });
}

macro_rules! float_fwd1 {
    ($ops:ident, $T:ident, $($m:ident),*) => {$(
        un!($ops, $T, concat!("Float::", stringify!($m), " vs ", stringify!($m)),
            |a| num_traits::Float::$m(a).tb(), |a| <$T>::$m(a).tb());
    )*};
}
macro_rules! float_fwd2 {
    ($ops:ident, $T:ident, $($m:ident),*) => {$(
        bin!($ops, $T, concat!("Float::", stringify!($m), " vs ", stringify!($m)),
            |a, b| num_traits::Float::$m(a, b).tb(), |a, b| <$T>::$m(a, b).tb());
    )*};
}

fn quire_spell<Q: QT>(ops: &mut Vec<Op>) {
    let f = <Q::P as PT>::F;
    let k = Kind::Pat(f);
    let qn = |s: &str| format!("{}::spell::{}", Q::NAME, s);
    // digest of the observable state
    fn dg<Q: QT>(q: &Q) -> u64 {
        let mut h = (q.i_is_zero() as u64) | ((q.i_is_nar() as u64) << 1) | (q.i_to_posit().tb() << 2);
        for w in q.limbs_le() {
            h = crate::rng::mix64(h ^ w);
        }
        h
    }
    // a state reached from three operands, then the trait spelling vs the inherent one
    macro_rules! q3 {
        ($name:literal, $a:expr, $b:expr) => {
            ops.push(
                Op::new(qn($name), &["C17"], &[k, k, k], OutKind::Raw, |x, y, z| {
                    let f: fn(Q::P, Q::P, Q::P) -> u64 = $a;
                    f(<Q::P as PT>::fb(x), <Q::P as PT>::fb(y), <Q::P as PT>::fb(z))
                })
                .slow(|x, y, z| {
                    let g: fn(Q::P, Q::P, Q::P) -> u64 = $b;
                    Some(g(<Q::P as PT>::fb(x), <Q::P as PT>::fb(y), <Q::P as PT>::fb(z)))
                })
                .weight(0.25),
            );
        };
    }
    q3!("Quire::init+add_product vs init+add_product",
        |a, b, c| { let mut q = Q::t_init(); q.t_add_product(a, b); q.t_add_product(b, c); dg(&q) },
        |a, b, c| { let mut q = Q::init(); q.m_add_product(a, b); q.m_add_product(b, c); dg(&q) });
    q3!("Quire::sub_product vs sub_product",
        |a, b, c| { let mut q = Q::i_from_posit(c); q.t_sub_product(a, b); dg(&q) },
        |a, b, c| { let mut q = Q::i_from_posit(c); q.m_sub_product(a, b); dg(&q) });
    q3!("add_product vs +=(a,b)",
        |a, b, c| { let mut q = Q::i_from_posit(c); q.m_add_product(a, b); dg(&q) },
        |a, b, c| { let mut q = Q::i_from_posit(c); q.add_prod(a, b); dg(&q) });
    q3!("sub_product vs -=(a,b)",
        |a, b, c| { let mut q = Q::i_from_posit(c); q.m_sub_product(a, b); dg(&q) },
        |a, b, c| { let mut q = Q::i_from_posit(c); q.sub_prod(a, b); dg(&q) });
    q3!("Quire::from_posit vs from_posit",
        |a, _, _| dg(&Q::t_from_posit(a)), |a, _, _| dg(&Q::i_from_posit(a)));
    q3!("From<posit> vs from_posit",
        |a, _, _| dg(&Q::from_trait(a)), |a, _, _| dg(&Q::i_from_posit(a)));
    q3!("Quire::to_posit/is_zero/is_nar vs inherent",
        |a, b, c| { let mut q = Q::i_from_posit(c); q.add_prod(a, b);
                    q.t_to_posit().tb() ^ ((q.t_is_zero() as u64) << 40) ^ ((q.t_is_nar() as u64) << 41) },
        |a, b, c| { let mut q = Q::i_from_posit(c); q.add_prod(a, b);
                    q.i_to_posit().tb() ^ ((q.i_is_zero() as u64) << 40) ^ ((q.i_is_nar() as u64) << 41) });
    q3!("Quire::neg vs neg",
        |a, b, c| { let mut q = Q::i_from_posit(c); q.add_prod(a, b); q.t_neg(); dg(&q) },
        |a, b, c| { let mut q = Q::i_from_posit(c); q.add_prod(a, b); q.i_neg(); dg(&q) });
    q3!("Quire::clear vs clear",
        |a, b, c| { let mut q = Q::i_from_posit(c); q.add_prod(a, b); q.t_clear(); dg(&q) },
        |a, b, c| { let mut q = Q::i_from_posit(c); q.add_prod(a, b); q.i_clear(); dg(&q) });
    q3!("Quire::from_bits(to_bits) vs identity",
        |a, b, c| { let mut q = Q::i_from_posit(c); q.add_prod(a, b); dg(&q.t_bits_roundtrip()) },
        |a, b, c| { let mut q = Q::i_from_posit(c); q.add_prod(a, b); dg(&q) });
    q3!("Into<posit> (From<Q>, From<&Q>) vs to_posit",
        |a, b, c| { let mut q = Q::i_from_posit(c); q.add_prod(a, b); q.into_posit_by_ref().tb() ^ (q.dup().into_posit_by_value().tb() << 32) },
        |a, b, c| { let mut q = Q::i_from_posit(c); q.add_prod(a, b); let p = q.i_to_posit().tb(); p ^ (p << 32) });
    ops.push(
        Op::new(qn("AssociatedQuire::Q::init vs init"), &["C17"], &[], OutKind::Raw, |_, _, _| {
            let mut h = 7u64;
            for w in Q::assoc_init_limbs() {
                h = crate::rng::mix64(h ^ w);
            }
            h
        })
        .slow(|_, _, _| {
            let mut h = 7u64;
            for w in Q::init().limbs_le() {
                h = crate::rng::mix64(h ^ w);
            }
            Some(h)
        }),
    );
}

pub fn register(all: &mut Vec<Op>) {
    let mut v: Vec<Op> = Vec::new();
    register_inner(&mut v);
    for mut o in v {
        if o.name.contains("::spell::") {
            o.differential = true;
        }
        all.push(o);
    }
}

fn register_inner(ops: &mut Vec<Op>) {
    spell_common::<P8E0>(ops);
    spell_common::<P16E1>(ops);
    spell_common::<P32E2>(ops);
    // forwarding of the elementary functions each type implements
    float_fwd1!(ops, P8E0, exp, ln);
    float_fwd1!(ops, P16E1, exp, exp2, ln, log2);
    float_fwd1!(ops, P32E2, exp, exp2, ln, log2, cbrt, sin, cos, tan, asin, acos, atan, sinh, cosh, tanh);
    float_fwd2!(ops, P32E2, powf, hypot, atan2);
    // provided methods of num_traits::Float that the crate does not override although the type has
    // an inherent method of the same name (P8E0 has none): known finding KF-C17-to-degrees
    float_fwd1!(ops, P16E1, to_degrees, to_radians);
    // the provided P16E1 versions call acos, an allow-listed todo!() stub: judged by C17 (one side
    // panics, the other returns), not part of the C16 catalogue
    let n = ops.len();
    ops[n - 1].skip_catalogue = true;
    ops[n - 2].skip_catalogue = true;
    float_fwd1!(ops, P32E2, to_degrees, to_radians);
    ops.push(
        Op::new("P32E2::spell::Float::sin_cos vs sin_cos", &["C17"], &[Kind::Pat(crate::val::P32)], OutKind::Raw, |x, _, _| {
            let (s, c) = num_traits::Float::sin_cos(P32E2::from_bits(x as u32));
            (s.to_bits() as u64) | ((c.to_bits() as u64) << 32)
        })
        .slow(|x, _, _| {
            let (s, c) = P32E2::from_bits(x as u32).sin_cos();
            Some((s.to_bits() as u64) | ((c.to_bits() as u64) << 32))
        })
        .weight(0.25),
    );
    // posit <-> posit: From / Into and the two inherent spellings (to_pX of the source,
    // from_pX of the target) must agree
    macro_rules! pp_spell {
        ($S:ty, $SF:expr, $sname:literal, $D:ty, $dname:literal, $to:ident, $from:ident) => {
            ops.push(
                Op::new(
                    format!("{}::spell::Into<{}> vs {}", $sname, $dname, stringify!($to)),
                    &["C17"],
                    &[Kind::Pat($SF)],
                    OutKind::Raw,
                    |x, _, _| {
                        let s = <$S as PT>::fb(x);
                        let a: $D = s.into();
                        let b = <$D as From<$S>>::from(s);
                        (a.tb() << 32) | b.tb()
                    },
                )
                .slow(|x, _, _| {
                    let s = <$S as PT>::fb(x);
                    let a = s.$to();
                    let b = <$D>::$from(s);
                    Some((a.tb() << 32) | b.tb())
                }),
            );
        };
    }
    pp_spell!(P8E0, crate::val::P8, "P8E0", P16E1, "P16E1", to_p16e1, from_p8e0);
    pp_spell!(P8E0, crate::val::P8, "P8E0", P32E2, "P32E2", to_p32e2, from_p8e0);
    pp_spell!(P16E1, crate::val::P16, "P16E1", P8E0, "P8E0", to_p8e0, from_p16e1);
    pp_spell!(P16E1, crate::val::P16, "P16E1", P32E2, "P32E2", to_p32e2, from_p16e1);
    pp_spell!(P32E2, crate::val::P32, "P32E2", P8E0, "P8E0", to_p8e0, from_p32e2);
    pp_spell!(P32E2, crate::val::P32, "P32E2", P16E1, "P16E1", to_p16e1, from_p32e2);
    quire_spell::<Q8E0>(ops);
    quire_spell::<Q16E1>(ops);
    quire_spell::<Q32E2>(ops);
    // type aliases
    macro_rules! alias {
        ($a:ty, $b:ty, $n:literal) => {
            ops.push(
                Op::new(concat!("alias::", $n), &["C17"], &[], OutKind::Raw, |_, _, _| {
                    (core::any::TypeId::of::<$a>() == core::any::TypeId::of::<$b>()) as u64
                })
                .slow(|_, _, _| Some(1)),
            );
        };
    }
    alias!(softposit::P8, P8E0, "P8=P8E0");
    alias!(softposit::P16, P16E1, "P16=P16E1");
    alias!(softposit::P32, P32E2, "P32=P32E2");
    alias!(softposit::Q8, Q8E0, "Q8=Q8E0");
    alias!(softposit::Q16, Q16E1, "Q16=Q16E1");
    alias!(softposit::Q32, Q32E2, "Q32=Q32E2");
}
