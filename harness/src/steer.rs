//! A steered `RngCore`: hands out a prepared queue of 32-bit words, then falls back to a
//! counter-based pseudo-random stream (never a constant stream: that would make rand's own
//! rejection loop spin, which is not the crate's behaviour).

use rand::RngCore;

pub struct Steered {
    pub queue: [u32; 4],
    pub len: usize,
    pub pos: usize,
    pub fallback: u64,
    pub drawn: u32,
}

impl Steered {
    pub fn new(words: &[u32], salt: u64) -> Steered {
        let mut q = [0u32; 4];
        for (i, w) in words.iter().enumerate().take(4) {
            q[i] = *w;
        }
        Steered {
            queue: q,
            len: words.len().min(4),
            pos: 0,
            fallback: salt | 1,
            drawn: 0,
        }
    }
}

impl RngCore for Steered {
    fn next_u32(&mut self) -> u32 {
        self.drawn += 1;
        if self.pos < self.len {
            let v = self.queue[self.pos];
            self.pos += 1;
            v
        } else {
            (crate::rng::splitmix(&mut self.fallback) >> 32) as u32
        }
    }
    fn next_u64(&mut self) -> u64 {
        let lo = self.next_u32() as u64;
        let hi = self.next_u32() as u64;
        (hi << 32) | lo
    }
    fn fill_bytes(&mut self, dest: &mut [u8]) {
        for ch in dest.chunks_mut(4) {
            let v = self.next_u32().to_le_bytes();
            ch.copy_from_slice(&v[..ch.len()]);
        }
    }
    fn try_fill_bytes(&mut self, dest: &mut [u8]) -> Result<(), rand::Error> {
        self.fill_bytes(dest);
        Ok(())
    }
}

/// xoshiro-based RngCore for long seeded streams
pub struct Stream(pub crate::rng::Rng);
impl RngCore for Stream {
    fn next_u32(&mut self) -> u32 {
        (self.0.next() >> 32) as u32
    }
    fn next_u64(&mut self) -> u64 {
        self.0.next()
    }
    fn fill_bytes(&mut self, dest: &mut [u8]) {
        for ch in dest.chunks_mut(8) {
            let v = self.0.next().to_le_bytes();
            ch.copy_from_slice(&v[..ch.len()]);
        }
    }
    fn try_fill_bytes(&mut self, dest: &mut [u8]) -> Result<(), rand::Error> {
        self.fill_bytes(dest);
        Ok(())
    }
}
