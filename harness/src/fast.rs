//! u128 fast path of the oracle for formats with n <= 32 (DESIGN §3.3).
//! Same rule as `val.rs`, different data structure; used for the big sweeps.
//! Every candidate violation found with it is re-judged by the slow path before it is reported.

use crate::val::Fmt;

#[derive(Clone, Copy, Debug)]
pub struct Num {
    pub neg: bool,
    pub scale: i32,
    /// significand, most significant (hidden) bit at bit 127: value = m / 2^127 * 2^scale
    pub m: u128,
    /// true value is strictly larger in magnitude than m says, by less than one unit of bit 0
    pub sticky: bool,
}

#[derive(Clone, Copy, Debug)]
pub enum FV {
    Zero,
    NaR,
    Num(Num),
}

#[inline]
pub fn decode(f: Fmt, p: u32) -> FV {
    let n = f.n;
    let mask: u32 = if n == 32 { u32::MAX } else { (1u32 << n) - 1 };
    let p = p & mask;
    if p == 0 {
        return FV::Zero;
    }
    let nar = 1u32 << (n - 1);
    if p == nar {
        return FV::NaR;
    }
    let neg = p & nar != 0;
    let q = if neg { p.wrapping_neg() & mask } else { p };
    let nb = n - 1;
    let mut x: u64 = (q as u64) << (64 - nb); // first regime bit at bit 63
    let r0 = x >> 63 != 0;
    let run = if r0 {
        (!x).leading_zeros().min(nb)
    } else {
        x.leading_zeros().min(nb)
    };
    let k: i32 = if r0 { run as i32 - 1 } else { -(run as i32) };
    x <<= run; // run <= 31
    x <<= 1; // terminator
    let ex = if f.es == 0 { 0 } else { (x >> (64 - f.es)) as i32 };
    x <<= f.es;
    let m = (1u128 << 127) | ((x as u128) << 63);
    FV::Num(Num {
        neg,
        scale: k * (1 << f.es) + ex,
        m,
        sticky: false,
    })
}

#[inline]
pub fn encode(f: Fmt, v: FV) -> u32 {
    encode_class(f, v).0
}

/// (pattern, rounding class as in `val::RoundClass`)
#[inline]
pub fn encode_class(f: Fmt, v: FV) -> (u32, u8) {
    let n = f.n;
    let mask: u32 = if n == 32 { u32::MAX } else { (1u32 << n) - 1 };
    let x = match v {
        FV::Zero => return (0, 7),
        FV::NaR => return (1u32 << (n - 1), 8),
        FV::Num(x) => x,
    };
    debug_assert!(x.m >> 127 == 1);
    let es_pow = 1i32 << f.es;
    let k = x.scale.div_euclid(es_pow);
    let ex = x.scale.rem_euclid(es_pow) as u128;
    let nb = (n - 1) as i32;
    let maxpos = (1u32 << (n - 1)) - 1;
    let fin = |u: u32| if x.neg { u.wrapping_neg() & mask } else { u };
    if k >= nb - 1 {
        return (fin(maxpos), 5);
    }
    if k <= -nb {
        return (fin(1), 6);
    }
    let (rl, reg): (u32, u128) = if k >= 0 {
        let ones = (k + 1) as u32;
        (ones + 1, ((1u128 << ones) - 1) << 1)
    } else {
        ((-k) as u32 + 1, 1)
    };
    let frac = x.m << 1; // hidden bit dropped, 127 fraction bits top-aligned
    let head = rl + f.es; // <= 33
    let lost = frac & ((1u128 << head) - 1) != 0;
    let s: u128 = (reg << (128 - rl)) | if f.es > 0 { ex << (128 - head) } else { 0 } | (frac >> head);
    let nbu = nb as u32;
    let u = (s >> (128 - nbu)) as u32;
    let r = (s >> (127 - nbu)) & 1 == 1;
    let t = (s & ((1u128 << (127 - nbu)) - 1)) != 0 || lost || x.sticky;
    let up = r && (t || (u & 1) == 1);
    let mut res = u + up as u32;
    let mut class = if !r && !t {
        0
    } else if r && !t {
        if up {
            4
        } else {
            3
        }
    } else if up {
        2
    } else {
        1
    };
    if res == 0 {
        res = 1;
        class = 6;
    }
    if res > maxpos {
        res = maxpos;
        class = 5;
    }
    (fin(res), class)
}

#[inline]
fn shr_sticky(m: u128, d: u32) -> (u128, bool) {
    if d == 0 {
        (m, false)
    } else if d >= 128 {
        (0, m != 0)
    } else {
        (m >> d, m & ((1u128 << d) - 1) != 0)
    }
}

/// exact (or sticky-correct) sum of two values
#[inline]
pub fn add(a: FV, b: FV) -> FV {
    let (a, b) = match (a, b) {
        (FV::NaR, _) | (_, FV::NaR) => return FV::NaR,
        (FV::Zero, o) | (o, FV::Zero) => return o,
        (FV::Num(a), FV::Num(b)) => (a, b),
    };
    debug_assert!(!a.sticky && !b.sticky);
    debug_assert!(a.m & 1 == 0 && b.m & 1 == 0);
    let (a, b) = if (a.scale, a.m) >= (b.scale, b.m) { (a, b) } else { (b, a) };
    let d = (a.scale - b.scale) as u32;
    let am = a.m >> 1;
    let (bm, st) = shr_sticky(b.m >> 1, d);
    if a.neg == b.neg {
        let sum = am + bm;
        if sum >> 127 != 0 {
            FV::Num(Num {
                neg: a.neg,
                scale: a.scale + 1,
                m: sum,
                sticky: st,
            })
        } else {
            FV::Num(Num {
                neg: a.neg,
                scale: a.scale,
                m: sum << 1,
                sticky: st,
            })
        }
    } else {
        let diff = am - bm - st as u128;
        if diff == 0 && !st {
            return FV::Zero;
        }
        let lz = diff.leading_zeros();
        debug_assert!(!st || lz <= 2);
        FV::Num(Num {
            neg: a.neg,
            scale: a.scale - (lz as i32 - 1),
            m: diff << lz,
            sticky: st,
        })
    }
}

#[inline]
pub fn negate(a: FV) -> FV {
    match a {
        FV::Num(x) => FV::Num(Num { neg: !x.neg, ..x }),
        o => o,
    }
}

/// exact product (operands must have at most 64 significant bits)
#[inline]
pub fn mul(a: FV, b: FV) -> FV {
    let (a, b) = match (a, b) {
        (FV::NaR, _) | (_, FV::NaR) => return FV::NaR,
        (FV::Zero, _) | (_, FV::Zero) => return FV::Zero,
        (FV::Num(a), FV::Num(b)) => (a, b),
    };
    debug_assert!(a.m as u64 == 0 && b.m as u64 == 0 && !a.sticky && !b.sticky);
    let p = (a.m >> 64) * (b.m >> 64);
    if p >> 127 != 0 {
        FV::Num(Num {
            neg: a.neg != b.neg,
            scale: a.scale + b.scale + 1,
            m: p,
            sticky: false,
        })
    } else {
        FV::Num(Num {
            neg: a.neg != b.neg,
            scale: a.scale + b.scale,
            m: p << 1,
            sticky: false,
        })
    }
}

/// quotient with >= 63 bits and a sticky remainder flag (divisor at most 64 significant bits)
#[inline]
pub fn div(a: FV, b: FV) -> FV {
    let (a, b) = match (a, b) {
        (FV::NaR, _) | (_, FV::NaR) | (_, FV::Zero) => return FV::NaR,
        (FV::Zero, _) => return FV::Zero,
        (FV::Num(a), FV::Num(b)) => (a, b),
    };
    debug_assert!(b.m as u64 == 0 && !a.sticky && !b.sticky);
    let bm = b.m >> 64;
    let q = a.m / bm;
    let r = a.m % bm;
    let t = 127 - q.leading_zeros() as i32; // msb position
    FV::Num(Num {
        neg: a.neg != b.neg,
        scale: a.scale - b.scale + t - 64,
        m: q << (127 - t),
        sticky: r != 0,
    })
}

#[inline]
pub fn isqrt_u128(x: u128) -> u128 {
    if x == 0 {
        return 0;
    }
    let mut r = (x as f64).sqrt() as u128;
    if r == 0 {
        r = 1;
    }
    // one Newton step, then exact fix-up
    r = (r + x / r) >> 1;
    loop {
        match r.checked_mul(r) {
            Some(sq) if sq <= x => break,
            _ => r -= 1,
        }
    }
    loop {
        let r1 = r + 1;
        match r1.checked_mul(r1) {
            Some(sq) if sq <= x => r = r1,
            _ => break,
        }
    }
    r
}

#[inline]
pub fn sqrt(a: FV) -> FV {
    let a = match a {
        FV::NaR => return FV::NaR,
        FV::Zero => return FV::Zero,
        FV::Num(a) => a,
    };
    if a.neg {
        return FV::NaR;
    }
    debug_assert!(a.m & 1 == 0 && !a.sticky);
    let even = a.scale.rem_euclid(2) == 0;
    let x = if even { a.m >> 1 } else { a.m };
    let r = isqrt_u128(x);
    let exact = r * r == x;
    debug_assert!(r >> 63 == 1);
    FV::Num(Num {
        neg: false,
        scale: a.scale.div_euclid(2),
        m: r << 64,
        sticky: !exact,
    })
}

// ------------------------------------------------------------------ whole operations on patterns
#[inline]
pub fn op_add(f: Fmt, a: u32, b: u32) -> u32 {
    encode(f, add(decode(f, a), decode(f, b)))
}
#[inline]
pub fn op_sub(f: Fmt, a: u32, b: u32) -> u32 {
    encode(f, add(decode(f, a), negate(decode(f, b))))
}
#[inline]
pub fn op_mul(f: Fmt, a: u32, b: u32) -> u32 {
    encode(f, mul(decode(f, a), decode(f, b)))
}
#[inline]
pub fn op_div(f: Fmt, a: u32, b: u32) -> u32 {
    encode(f, div(decode(f, a), decode(f, b)))
}
#[inline]
pub fn op_sqrt(f: Fmt, a: u32) -> u32 {
    encode(f, sqrt(decode(f, a)))
}
/// a*b + c (mode 0), a*b - c (mode 1), c - a*b (mode 2), one rounding
#[inline]
pub fn op_fma(f: Fmt, a: u32, b: u32, c: u32, mode: u32) -> u32 {
    let p = mul(decode(f, a), decode(f, b));
    let cv = decode(f, c);
    let r = match mode {
        0 => add(p, cv),
        1 => add(p, negate(cv)),
        _ => add(cv, negate(p)),
    };
    encode(f, r)
}
/// re-encode a pattern of format `from` in format `to`
#[inline]
pub fn op_convert(from: Fmt, to: Fmt, a: u32) -> u32 {
    encode(to, decode(from, a))
}

// ------------------------------------------------------------------ floats
#[inline]
pub fn from_f64_bits(b: u64) -> FV {
    let neg = b >> 63 != 0;
    let ex = ((b >> 52) & 0x7ff) as i32;
    let fr = b & ((1u64 << 52) - 1);
    if ex == 0x7ff {
        return FV::NaR;
    }
    if ex == 0 {
        if fr == 0 {
            return FV::Zero;
        }
        let lz = fr.leading_zeros(); // >= 12
        return FV::Num(Num {
            neg,
            scale: -1074 + (63 - lz as i32),
            m: (fr as u128) << (64 + lz),
            sticky: false,
        });
    }
    FV::Num(Num {
        neg,
        scale: ex - 1023,
        m: ((fr | (1u64 << 52)) as u128) << 75,
        sticky: false,
    })
}
#[inline]
pub fn from_f32_bits(b: u32) -> FV {
    let neg = b >> 31 != 0;
    let ex = ((b >> 23) & 0xff) as i32;
    let fr = b & ((1u32 << 23) - 1);
    if ex == 0xff {
        return FV::NaR;
    }
    if ex == 0 {
        if fr == 0 {
            return FV::Zero;
        }
        let lz = fr.leading_zeros(); // >= 9
        return FV::Num(Num {
            neg,
            scale: -149 + (31 - lz as i32),
            m: (fr as u128) << (96 + lz),
            sticky: false,
        });
    }
    FV::Num(Num {
        neg,
        scale: ex - 127,
        m: ((fr | (1u32 << 23)) as u128) << 104,
        sticky: false,
    })
}
pub const F64_NAN: u64 = 0x7ff8_0000_0000_0000;
pub const F32_NAN: u32 = 0x7fc0_0000;

/// IEEE binary64 bits nearest (RNE) to the value, for values in the normal range only
/// (every posit with n <= 32, es <= 2 is): (bits, exact)
#[inline]
pub fn to_f64_bits(v: FV) -> (u64, bool) {
    match v {
        FV::Zero => (0, true),
        FV::NaR => (F64_NAN, true),
        FV::Num(x) => {
            debug_assert!(x.scale > -1000 && x.scale < 1000 && !x.sticky);
            let frac = x.m << 1; // 127 bits top aligned
            let keep = (frac >> 76) as u64; // 52 bits
            let half = (frac >> 75) & 1 == 1;
            let rest = frac & ((1u128 << 75) - 1) != 0;
            let up = half && (rest || keep & 1 == 1);
            let mut bits = (((x.scale + 1023) as u64) << 52) | keep;
            bits += up as u64; // carry into the exponent is the right thing
            (((x.neg as u64) << 63) | bits, !(half || rest))
        }
    }
}
#[inline]
pub fn to_f32_bits(v: FV) -> (u32, bool) {
    match v {
        FV::Zero => (0, true),
        FV::NaR => (F32_NAN, true),
        FV::Num(x) => {
            debug_assert!(x.scale > -126 && x.scale < 127 && !x.sticky);
            let frac = x.m << 1;
            let keep = (frac >> 105) as u32; // 23 bits
            let half = (frac >> 104) & 1 == 1;
            let rest = frac & ((1u128 << 104) - 1) != 0;
            let up = half && (rest || keep & 1 == 1);
            let mut bits = (((x.scale + 127) as u32) << 23) | keep;
            bits += up as u32;
            (((x.neg as u32) << 31) | bits, !(half || rest))
        }
    }
}

// ------------------------------------------------------------------ integers
#[inline]
pub fn from_u128(neg: bool, v: u128) -> FV {
    if v == 0 {
        return FV::Zero;
    }
    let lz = v.leading_zeros();
    FV::Num(Num {
        neg,
        scale: 127 - lz as i32,
        m: v << lz,
        sticky: false,
    })
}
#[inline]
pub fn from_i128(v: i128) -> FV {
    from_u128(v < 0, v.unsigned_abs())
}

#[derive(Clone, Copy, PartialEq, Eq)]
pub enum IntMode {
    Floor,
    Ceil,
    Trunc,
    NearestEven,
}

/// integer part / fraction flags of |x|: (ip, half, rest); ip saturates at u128::MAX for huge values
#[inline]
fn split_int(x: &Num) -> (u128, bool, bool) {
    if x.scale < -1 {
        (0, false, true)
    } else if x.scale >= 127 {
        (u128::MAX, false, false)
    } else {
        let shift = (127 - x.scale) as u32; // 1..=128
        if shift == 128 {
            (0, true, (x.m << 1) != 0)
        } else {
            (
                x.m >> shift,
                (x.m >> (shift - 1)) & 1 == 1,
                x.m & ((1u128 << (shift - 1)) - 1) != 0,
            )
        }
    }
}

/// round to an integer, result as exact FV (for |x| < 2^127)
#[inline]
pub fn int_round(v: FV, mode: IntMode) -> FV {
    let x = match v {
        FV::Num(x) => x,
        o => return o,
    };
    debug_assert!(!x.sticky);
    if x.scale >= 127 {
        return v;
    }
    let (ip, half, rest) = split_int(&x);
    let nz = half || rest;
    let up = match mode {
        IntMode::Trunc => false,
        IntMode::Floor => x.neg && nz,
        IntMode::Ceil => !x.neg && nz,
        IntMode::NearestEven => half && (rest || ip & 1 == 1),
    };
    from_u128(x.neg, ip + up as u128)
}

/// nearest integer, ties to even, clamped to [lo, hi]
#[inline]
pub fn to_int_clamped(v: FV, lo: i128, hi: i128) -> Option<i128> {
    match v {
        FV::NaR => None,
        FV::Zero => Some(0i128.clamp(lo, hi)),
        FV::Num(x) => {
            if x.scale >= 126 {
                return Some(if x.neg { lo } else { hi });
            }
            let (ip, half, rest) = split_int(&x);
            let r = (ip + (half && (rest || ip & 1 == 1)) as u128) as i128;
            Some((if x.neg { -r } else { r }).clamp(lo, hi))
        }
    }
}

/// real-number order, NaR below everything and equal to itself
#[inline]
pub fn cmp(a: FV, b: FV) -> std::cmp::Ordering {
    use std::cmp::Ordering::*;
    fn key(v: &FV) -> (i32, i32, u128) {
        // (sign class, signed scale, signed mantissa ordering helper)
        match v {
            FV::NaR => (-2, 0, 0),
            FV::Zero => (0, 0, 0),
            FV::Num(x) => (if x.neg { -1 } else { 1 }, x.scale, x.m),
        }
    }
    let (ka, kb) = (key(&a), key(&b));
    if ka.0 != kb.0 {
        return ka.0.cmp(&kb.0);
    }
    match ka.0 {
        1 => (ka.1, ka.2).cmp(&(kb.1, kb.2)),
        -1 => (kb.1, kb.2).cmp(&(ka.1, ka.2)),
        _ => Equal,
    }
}
