//! Operation registry: every observable call of the crate that a monitor (or the C16
//! catalogue, or a replay) wants to make is one `Op`: a closure running the real code on
//! raw words, plus optional oracles.

use crate::gen::Kind;
use crate::val::Fmt;

pub type RunFn = Box<dyn Fn(u64, u64, u64) -> u64 + Send + Sync>;
/// fast oracle: (expected word, rounding class or 255)
pub type FastFn = Box<dyn Fn(u64, u64, u64) -> (u64, u8) + Send + Sync>;
/// slow (authoritative) oracle: None = the property says nothing about this input
pub type SlowFn = Box<dyn Fn(u64, u64, u64) -> Option<u64> + Send + Sync>;

#[derive(Clone, Copy, Debug, PartialEq, Eq)]
pub enum OutKind {
    /// right-aligned pattern of this format
    Pat(Fmt),
    /// 32-bit word holding an N-bit pattern left-aligned (generic types)
    PatLeft(Fmt),
    /// anything else (integers, float bits, booleans, packed pairs)
    Raw,
}

pub struct Op {
    pub name: String,
    /// properties that judge this op with its oracle
    pub props: Vec<&'static str>,
    pub ins: Vec<Kind>,
    pub out: OutKind,
    pub run: RunFn,
    pub fast: Option<FastFn>,
    pub slow: Option<SlowFn>,
    /// relative weight of the sampling budget (1.0 = default)
    pub weight: f64,
    /// explicit not-implemented stub (excluded from C16)
    pub stub: bool,
    /// both `run` and `slow` are crate code (spelling equivalence): a panic on both sides agrees
    pub differential: bool,
    /// not part of the C16 catalogue (the op reaches an allow-listed todo!() stub by design)
    pub skip_catalogue: bool,
    /// free text shown in evidence
    pub note: &'static str,
}

impl Op {
    pub fn new(
        name: impl Into<String>,
        props: &[&'static str],
        ins: &[Kind],
        out: OutKind,
        run: impl Fn(u64, u64, u64) -> u64 + Send + Sync + 'static,
    ) -> Op {
        Op {
            name: name.into(),
            props: props.to_vec(),
            ins: ins.to_vec(),
            out,
            run: Box::new(run),
            fast: None,
            slow: None,
            weight: 1.0,
            stub: false,
            differential: false,
            skip_catalogue: false,
            note: "",
        }
    }
    pub fn fast(mut self, f: impl Fn(u64, u64, u64) -> (u64, u8) + Send + Sync + 'static) -> Op {
        self.fast = Some(Box::new(f));
        self
    }
    pub fn slow(mut self, f: impl Fn(u64, u64, u64) -> Option<u64> + Send + Sync + 'static) -> Op {
        self.slow = Some(Box::new(f));
        self
    }
    /// attach a (fast, slow) oracle pair built by `orf`
    pub fn oracle(mut self, p: (FastFn, SlowFn)) -> Op {
        self.fast = Some(p.0);
        self.slow = Some(p.1);
        self
    }
    pub fn slow_boxed(mut self, s: SlowFn) -> Op {
        self.slow = Some(s);
        self
    }
    pub fn weight(mut self, w: f64) -> Op {
        self.weight = w;
        self
    }
    pub fn diff(mut self) -> Op {
        self.differential = true;
        self
    }
    pub fn stub(mut self) -> Op {
        self.stub = true;
        self
    }
    pub fn note(mut self, n: &'static str) -> Op {
        self.note = n;
        self
    }
    pub fn arity(&self) -> usize {
        self.ins.len()
    }
    /// total number of input bits (None if any input is 64 bits wide)
    pub fn space_log2(&self) -> f64 {
        self.ins
            .iter()
            .map(|k| match k.cardinality() {
                Some(c) => (c as f64).log2(),
                None => 64.0,
            })
            .sum()
    }
}

pub struct Registry {
    pub ops: Vec<Op>,
}

impl Registry {
    pub fn build() -> Registry {
        let mut ops = Vec::new();
        crate::ops_fixed::register(&mut ops);
        crate::ops_generic::register(&mut ops);
        // under Miri building thousands of closures takes minutes: the spelling table is only
        // registered when the job asks for it
        if !cfg!(miri) || std::env::var("SPVERIF_MIRI_SPELL").is_ok() {
            crate::ops_spell::register(&mut ops);
        }
        crate::ops_misc::register(&mut ops);
        crate::ops_cat::register(&mut ops);
        // names must be unique
        let mut names = std::collections::BTreeSet::new();
        for o in &ops {
            assert!(names.insert(o.name.clone()), "duplicate op name {}", o.name);
        }
        Registry { ops }
    }
    pub fn find(&self, name: &str) -> Option<usize> {
        self.ops.iter().position(|o| o.name == name)
    }
    pub fn for_prop<'a>(&'a self, prop: &'a str) -> impl Iterator<Item = (usize, &'a Op)> + 'a {
        self.ops
            .iter()
            .enumerate()
            .filter(move |(_, o)| o.props.iter().any(|p| *p == prop))
    }
}
