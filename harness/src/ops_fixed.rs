//! Registry entries for the fixed-width types P8E0, P16E1, P32E2 judged against the exact
//! oracle: C01 C02 C03 C05 C06 C07 C08 C09 C10.

use crate::fast::{self, IntMode, FV};
use crate::gen::Kind;
use crate::ops::{Op, OutKind};
use crate::orc;
use crate::pt::PT;
use crate::val::{Fmt, Val, P16, P32, P8};
use softposit::{P16E1, P32E2, P8E0};
use std::cmp::Ordering;

#[inline(always)]
pub fn fd(f: Fmt, a: u64) -> FV {
    fast::decode(f, a as u32)
}
#[inline(always)]
pub fn fe(f: Fmt, v: FV) -> (u64, u8) {
    let (b, c) = fast::encode_class(f, v);
    (b as u64, c)
}
pub fn int_kind(bits: u32, signed: bool, f: Fmt) -> Kind {
    Kind::Int { bits, signed, f }
}
pub fn sext(v: u64, bits: u32) -> i128 {
    if bits == 64 {
        v as i64 as i128
    } else {
        let sh = 64 - bits;
        (((v << sh) as i64) >> sh) as i128
    }
}
pub fn int_range(bits: u32, signed: bool) -> (i128, i128) {
    if signed {
        (-(1i128 << (bits - 1)), (1i128 << (bits - 1)) - 1)
    } else {
        (0, (1i128 << bits) - 1)
    }
}
pub fn mask(bits: u32) -> u64 {
    if bits == 64 {
        u64::MAX
    } else {
        (1u64 << bits) - 1
    }
}
fn nm<T: PT>(s: &str) -> String {
    format!("{}::{}", T::NAME, s)
}

macro_rules! from_int {
    ($ops:ident, $T:ident, $fname:ident, $ifn:ident, $It:ty, $bits:expr, $signed:expr, $w:expr) => {
        $ops.push(
            Op::new(
                nm::<$T>(stringify!($fname)),
                &["C07"],
                &[int_kind($bits, $signed, $T::F)],
                OutKind::Pat($T::F),
                |x, _, _| $T::$ifn(x as $It).tb(),
            )
            .fast(|x, _, _| {
                let v = if $signed { sext(x, $bits) } else { x as i128 };
                fe($T::F, fast::from_i128(v))
            })
            .slow(|x, _, _| {
                let v = if $signed { sext(x, $bits) } else { x as i128 };
                Some(orc::from_int($T::F, v))
            })
            .weight($w),
        );
    };
}

macro_rules! to_int {
    ($ops:ident, $T:ident, $fname:ident, $ifn:ident, $bits:expr, $signed:expr) => {
        $ops.push(
            Op::new(
                nm::<$T>(stringify!($fname)),
                &["C07"],
                &[Kind::Pat($T::F)],
                OutKind::Raw,
                |x, _, _| ($T::fb(x).$ifn() as u64) & mask($bits),
            )
            .fast(|x, _, _| {
                let (lo, hi) = int_range($bits, $signed);
                match fast::to_int_clamped(fd($T::F, x), lo, hi) {
                    Some(v) => ((v as u64) & mask($bits), 255),
                    None => (u64::MAX - 7, 254), // NaR: property silent -> slow path says Skip
                }
            })
            .slow(|x, _, _| {
                let (lo, hi) = int_range($bits, $signed);
                orc::to_int($T::F, x, lo, hi).map(|v| (v as u64) & mask($bits))
            }),
        );
    };
}

macro_rules! rounding {
    ($ops:ident, $T:ident, $fname:ident, $ifn:ident, $mode:expr) => {
        $ops.push(
            Op::new(
                nm::<$T>(stringify!($fname)),
                &["C09"],
                &[Kind::Pat($T::F)],
                OutKind::Pat($T::F),
                |x, _, _| $T::fb(x).$ifn().tb(),
            )
            .fast(|x, _, _| fe($T::F, fast::int_round(fd($T::F, x), $mode)))
            .slow(|x, _, _| {
                let v = Val::decode($T::F, x);
                let r = match $mode {
                    IntMode::Floor => v.floor(),
                    IntMode::Ceil => v.ceil(),
                    IntMode::Trunc => v.trunc(),
                    IntMode::NearestEven => v.round_even(),
                };
                Some(r.encode_bits($T::F))
            }),
        );
    };
}

macro_rules! cmp_op {
    ($ops:ident, $T:ident, $opname:literal, $run:expr, $pred:expr) => {
        $ops.push(
            Op::new(
                nm::<$T>($opname),
                &["C10"],
                &[Kind::Pat($T::F), Kind::Pat($T::F)],
                OutKind::Raw,
                |x, y, _| {
                    let f: fn($T, $T) -> bool = $run;
                    f($T::fb(x), $T::fb(y)) as u64
                },
            )
            .fast(|x, y, _| {
                let pr: fn(Ordering) -> bool = $pred;
                (pr(fast::cmp(fd($T::F, x), fd($T::F, y))) as u64, 255)
            })
            .slow(|x, y, _| {
                let pr: fn(Ordering) -> bool = $pred;
                Some(pr(orc::cmp($T::F, x, y)) as u64)
            })
            .weight(0.25),
        );
    };
}

macro_rules! pred_op {
    ($ops:ident, $T:ident, $fname:ident, $ifn:ident, $want:expr) => {
        $ops.push(
            Op::new(
                nm::<$T>(stringify!($fname)),
                &["C10"],
                &[Kind::Pat($T::F)],
                OutKind::Raw,
                |x, _, _| $T::fb(x).$ifn() as u64,
            )
            .slow(|x, _, _| {
                let w: fn(&Val) -> Option<bool> = $want;
                w(&Val::decode($T::F, x)).map(|v| v as u64)
            })
            .weight(0.25),
        );
    };
}

fn register_fixed<T: PT>(ops: &mut Vec<Op>) {
    let k = Kind::Pat(T::F);
    let out = OutKind::Pat(T::F);

    // ---------------------------------------------------------------- C01
    ops.push(
        Op::new(nm::<T>("add"), &["C01"], &[k, k], out, |x, y, _| T::fb(x).i_add(T::fb(y)).tb())
            .fast(|x, y, _| fe(T::F, fast::add(fd(T::F, x), fd(T::F, y))))
            .slow(|x, y, _| Some(orc::add(T::F, x, y))),
    );
    ops.push(
        Op::new(nm::<T>("sub"), &["C01"], &[k, k], out, |x, y, _| T::fb(x).i_sub(T::fb(y)).tb())
            .fast(|x, y, _| fe(T::F, fast::add(fd(T::F, x), fast::negate(fd(T::F, y)))))
            .slow(|x, y, _| Some(orc::sub(T::F, x, y))),
    );
    ops.push(
        Op::new(nm::<T>("mul"), &["C01"], &[k, k], out, |x, y, _| T::fb(x).i_mul(T::fb(y)).tb())
            .fast(|x, y, _| fe(T::F, fast::mul(fd(T::F, x), fd(T::F, y))))
            .slow(|x, y, _| Some(orc::mul(T::F, x, y))),
    );
    ops.push(
        Op::new(nm::<T>("div"), &["C01"], &[k, k], out, |x, y, _| T::fb(x).i_div(T::fb(y)).tb())
            .fast(|x, y, _| fe(T::F, fast::div(fd(T::F, x), fd(T::F, y))))
            .slow(|x, y, _| Some(orc::div(T::F, x, y))),
    );
    ops.push(
        Op::new(nm::<T>("op+"), &["C01"], &[k, k], out, |x, y, _| (T::fb(x) + T::fb(y)).tb())
            .fast(|x, y, _| fe(T::F, fast::add(fd(T::F, x), fd(T::F, y))))
            .slow(|x, y, _| Some(orc::add(T::F, x, y)))
            .weight(0.5),
    );
    ops.push(
        Op::new(nm::<T>("op-"), &["C01"], &[k, k], out, |x, y, _| (T::fb(x) - T::fb(y)).tb())
            .fast(|x, y, _| fe(T::F, fast::add(fd(T::F, x), fast::negate(fd(T::F, y)))))
            .slow(|x, y, _| Some(orc::sub(T::F, x, y)))
            .weight(0.5),
    );
    ops.push(
        Op::new(nm::<T>("op*"), &["C01"], &[k, k], out, |x, y, _| (T::fb(x) * T::fb(y)).tb())
            .fast(|x, y, _| fe(T::F, fast::mul(fd(T::F, x), fd(T::F, y))))
            .slow(|x, y, _| Some(orc::mul(T::F, x, y)))
            .weight(0.5),
    );
    ops.push(
        Op::new(nm::<T>("op/"), &["C01"], &[k, k], out, |x, y, _| (T::fb(x) / T::fb(y)).tb())
            .fast(|x, y, _| fe(T::F, fast::div(fd(T::F, x), fd(T::F, y))))
            .slow(|x, y, _| Some(orc::div(T::F, x, y)))
            .weight(0.5),
    );

    // ---------------------------------------------------------------- C02
    ops.push(
        Op::new(nm::<T>("from_f32"), &["C02"], &[Kind::F32(T::F)], out, |x, _, _| {
            T::i_from_f32(f32::from_bits(x as u32)).tb()
        })
        .fast(|x, _, _| fe(T::F, fast::from_f32_bits(x as u32)))
        .slow(|x, _, _| Some(orc::from_f32(T::F, x as u32))),
    );
    ops.push(
        Op::new(nm::<T>("from_f64"), &["C02"], &[Kind::F64(T::F)], out, |x, _, _| {
            T::i_from_f64(f64::from_bits(x)).tb()
        })
        .fast(|x, _, _| fe(T::F, fast::from_f64_bits(x)))
        .slow(|x, _, _| Some(orc::from_f64(T::F, x))),
    );
    ops.push(
        Op::new(nm::<T>("From<f32>"), &["C02"], &[Kind::F32(T::F)], out, |x, _, _| {
            <T as From<f32>>::from(f32::from_bits(x as u32)).tb()
        })
        .fast(|x, _, _| fe(T::F, fast::from_f32_bits(x as u32)))
        .slow(|x, _, _| Some(orc::from_f32(T::F, x as u32)))
        .weight(0.25),
    );
    ops.push(
        Op::new(nm::<T>("From<f64>"), &["C02"], &[Kind::F64(T::F)], out, |x, _, _| {
            <T as From<f64>>::from(f64::from_bits(x)).tb()
        })
        .fast(|x, _, _| fe(T::F, fast::from_f64_bits(x)))
        .slow(|x, _, _| Some(orc::from_f64(T::F, x)))
        .weight(0.25),
    );
    // value-only: from_f32(x) == from_f64(x as f64) (differential, both sides real code)
    ops.push(
        Op::new(
            nm::<T>("from_f32_vs_from_f64_widened"),
            &["C02"],
            &[Kind::F32(T::F)],
            out,
            |x, _, _| T::i_from_f32(f32::from_bits(x as u32)).tb(),
        )
        .slow(|x, _, _| Some(T::i_from_f64(f32::from_bits(x as u32) as f64).tb()))
        .weight(0.5)
        .note("differential: both sides are crate code"),
    );

    // ---------------------------------------------------------------- C03
    ops.push(
        Op::new(nm::<T>("to_f64"), &["C03"], &[k], OutKind::Raw, |x, _, _| {
            orc::canon_f64(T::fb(x).i_to_f64().to_bits())
        })
        .fast(|x, _, _| (fast::to_f64_bits(fd(T::F, x)).0, 255))
        .slow(|x, _, _| {
            let (bits, exact) = Val::decode(T::F, x).to_f64_bits();
            assert!(exact, "posit value not exactly representable in f64?");
            Some(bits)
        }),
    );
    ops.push(
        Op::new(nm::<T>("to_f32"), &["C03"], &[k], OutKind::Raw, |x, _, _| {
            orc::canon_f32(T::fb(x).i_to_f32().to_bits()) as u64
        })
        .fast(|x, _, _| (fast::to_f32_bits(fd(T::F, x)).0 as u64, 255))
        .slow(|x, _, _| {
            let (bits, exact) = Val::decode(T::F, x).to_f32_bits();
            if T::F.n <= 16 {
                assert!(exact);
            }
            Some(bits as u64)
        }),
    );
    ops.push(
        Op::new(nm::<T>("f64::from"), &["C03"], &[k], OutKind::Raw, |x, _, _| {
            let v: f64 = T::fb(x).into();
            orc::canon_f64(v.to_bits())
        })
        .fast(|x, _, _| (fast::to_f64_bits(fd(T::F, x)).0, 255))
        .slow(|x, _, _| Some(Val::decode(T::F, x).to_f64_bits().0))
        .weight(0.25),
    );
    ops.push(
        Op::new(nm::<T>("f32::from"), &["C03"], &[k], OutKind::Raw, |x, _, _| {
            let v: f32 = T::fb(x).into();
            orc::canon_f32(v.to_bits()) as u64
        })
        .fast(|x, _, _| (fast::to_f32_bits(fd(T::F, x)).0 as u64, 255))
        .slow(|x, _, _| Some(Val::decode(T::F, x).to_f32_bits().0 as u64))
        .weight(0.25),
    );
    ops.push(
        Op::new(nm::<T>("roundtrip_f64"), &["C03"], &[k], out, |x, _, _| {
            let v: f64 = T::fb(x).into();
            <T as From<f64>>::from(v).tb()
        })
        .fast(|x, _, _| (x, 255))
        .slow(|x, _, _| Some(x)),
    );
    ops.push(
        Op::new(nm::<T>("roundtrip_text"), &["C03"], &[k], out, |x, _, _| {
            let s = T::fb(x).to_string();
            match s.parse::<T>() {
                Ok(v) => v.tb(),
                Err(_) => u64::MAX,
            }
        })
        .slow(|x, _, _| Some(x))
        .weight(0.1),
    );

    // ---------------------------------------------------------------- C05
    ops.push(
        Op::new(nm::<T>("mul_add"), &["C05"], &[k, k, k], out, |x, y, z| {
            T::fb(x).i_mul_add(T::fb(y), T::fb(z)).tb()
        })
        .fast(|x, y, z| fe(T::F, fast::add(fast::mul(fd(T::F, x), fd(T::F, y)), fd(T::F, z))))
        .slow(|x, y, z| Some(orc::fma(T::F, x, y, z, 0))),
    );
    ops.push(
        Op::new(nm::<T>("mul_sub"), &["C05"], &[k, k, k], out, |x, y, z| {
            T::fb(x).i_mul_sub(T::fb(y), T::fb(z)).tb()
        })
        .fast(|x, y, z| {
            fe(
                T::F,
                fast::add(fast::mul(fd(T::F, x), fd(T::F, y)), fast::negate(fd(T::F, z))),
            )
        })
        .slow(|x, y, z| Some(orc::fma(T::F, x, y, z, 1))),
    );
    // c.sub_product(a, b) = c - a*b ; inputs are (a, b, c) so that the generator's
    // "c ~ -(a*b)" construction applies
    ops.push(
        Op::new(nm::<T>("sub_product"), &["C05"], &[k, k, k], out, |x, y, z| {
            T::fb(z).i_sub_product(T::fb(x), T::fb(y)).tb()
        })
        .fast(|x, y, z| {
            fe(
                T::F,
                fast::add(fd(T::F, z), fast::negate(fast::mul(fd(T::F, x), fd(T::F, y)))),
            )
        })
        .slow(|x, y, z| Some(orc::fma(T::F, x, y, z, 2)))
        .note("inputs (a,b,c) -> c.sub_product(a,b)"),
    );

    // ---------------------------------------------------------------- C06
    ops.push(
        Op::new(nm::<T>("sqrt"), &["C06"], &[k], out, |x, _, _| T::fb(x).i_sqrt().tb())
            .fast(|x, _, _| fe(T::F, fast::sqrt(fd(T::F, x))))
            .slow(|x, _, _| Some(orc::sqrt(T::F, x))),
    );

    // ---------------------------------------------------------------- C07
    from_int!(ops, T, from_i8, i_from_i8, i8, 8, true, 1.0);
    from_int!(ops, T, from_i16, i_from_i16, i16, 16, true, 1.0);
    from_int!(ops, T, from_i32, i_from_i32, i32, 32, true, 1.0);
    from_int!(ops, T, from_i64, i_from_i64, i64, 64, true, 1.0);
    from_int!(ops, T, from_isize, i_from_isize, isize, 64, true, 0.25);
    from_int!(ops, T, from_u8, i_from_u8, u8, 8, false, 1.0);
    from_int!(ops, T, from_u16, i_from_u16, u16, 16, false, 1.0);
    from_int!(ops, T, from_u32, i_from_u32, u32, 32, false, 1.0);
    from_int!(ops, T, from_u64, i_from_u64, u64, 64, false, 1.0);
    from_int!(ops, T, from_usize, i_from_usize, usize, 64, false, 0.25);
    to_int!(ops, T, to_i32, i_to_i32, 32, true);
    to_int!(ops, T, to_u32, i_to_u32, 32, false);
    to_int!(ops, T, to_i64, i_to_i64, 64, true);
    to_int!(ops, T, to_u64, i_to_u64, 64, false);

    // ---------------------------------------------------------------- C09
    rounding!(ops, T, round, i_round, IntMode::NearestEven);
    rounding!(ops, T, floor, i_floor, IntMode::Floor);
    rounding!(ops, T, ceil, i_ceil, IntMode::Ceil);
    rounding!(ops, T, trunc, i_trunc, IntMode::Trunc);
    ops.push(
        Op::new(nm::<T>("fract"), &["C09"], &[k], out, |x, _, _| T::fb(x).i_fract().tb())
            .fast(|x, _, _| {
                let v = fd(T::F, x);
                let t = fast::int_round(v, IntMode::Trunc);
                fe(T::F, fast::add(v, fast::negate(t)))
            })
            .slow(|x, _, _| {
                let v = Val::decode(T::F, x);
                Some(v.sub(&v.trunc()).encode_bits(T::F))
            }),
    );

    // ---------------------------------------------------------------- C10
    cmp_op!(ops, T, "op==", |a, c| a == c, |o| o == Ordering::Equal);
    cmp_op!(ops, T, "op!=", |a, c| a != c, |o| o != Ordering::Equal);
    cmp_op!(ops, T, "op<", |a, c| a < c, |o| o == Ordering::Less);
    cmp_op!(ops, T, "op<=", |a, c| a <= c, |o| o != Ordering::Greater);
    cmp_op!(ops, T, "op>", |a, c| a > c, |o| o == Ordering::Greater);
    cmp_op!(ops, T, "op>=", |a, c| a >= c, |o| o != Ordering::Less);
    cmp_op!(ops, T, "eq", |a, c| a.i_eq(c), |o| o == Ordering::Equal);
    cmp_op!(ops, T, "lt", |a, c| a.i_lt(c), |o| o == Ordering::Less);
    cmp_op!(ops, T, "le", |a, c| a.i_le(c), |o| o != Ordering::Greater);
    cmp_op!(ops, T, "gt", |a, c| a.i_gt(c), |o| o == Ordering::Greater);
    cmp_op!(ops, T, "ge", |a, c| a.i_ge(c), |o| o != Ordering::Less);
    ops.push(
        Op::new(nm::<T>("cmp"), &["C10"], &[k, k], OutKind::Raw, |x, y, _| {
            orc::ord_code(T::fb(x).i_cmp(T::fb(y)))
        })
        .fast(|x, y, _| (orc::ord_code(fast::cmp(fd(T::F, x), fd(T::F, y))), 255))
        .slow(|x, y, _| Some(orc::ord_code(orc::cmp(T::F, x, y))))
        .weight(0.25),
    );
    ops.push(
        Op::new(nm::<T>("Ord::cmp"), &["C10"], &[k, k], OutKind::Raw, |x, y, _| {
            orc::ord_code(Ord::cmp(&T::fb(x), &T::fb(y)))
        })
        .fast(|x, y, _| (orc::ord_code(fast::cmp(fd(T::F, x), fd(T::F, y))), 255))
        .slow(|x, y, _| Some(orc::ord_code(orc::cmp(T::F, x, y))))
        .weight(0.25),
    );
    ops.push(
        Op::new(nm::<T>("partial_cmp"), &["C10"], &[k, k], OutKind::Raw, |x, y, _| {
            match PartialOrd::partial_cmp(&T::fb(x), &T::fb(y)) {
                Some(o) => orc::ord_code(o),
                None => 9,
            }
        })
        .fast(|x, y, _| (orc::ord_code(fast::cmp(fd(T::F, x), fd(T::F, y))), 255))
        .slow(|x, y, _| Some(orc::ord_code(orc::cmp(T::F, x, y))))
        .weight(0.25),
    );
    // selection: the result must be bit-identical to the input the order picks
    ops.push(
        Op::new(nm::<T>("min"), &["C10"], &[k, k], out, |x, y, _| T::fb(x).i_min(T::fb(y)).tb())
            .fast(|x, y, _| {
                (
                    if fast::cmp(fd(T::F, x), fd(T::F, y)) == Ordering::Greater { y } else { x },
                    255,
                )
            })
            .slow(|x, y, _| Some(if orc::cmp(T::F, x, y) == Ordering::Greater { y } else { x })),
    );
    ops.push(
        Op::new(nm::<T>("max"), &["C10"], &[k, k], out, |x, y, _| T::fb(x).i_max(T::fb(y)).tb())
            .fast(|x, y, _| {
                (
                    if fast::cmp(fd(T::F, x), fd(T::F, y)) == Ordering::Less { y } else { x },
                    255,
                )
            })
            .slow(|x, y, _| Some(if orc::cmp(T::F, x, y) == Ordering::Less { y } else { x })),
    );
    // clamp(x, lo, hi): only lo <= hi is in the documented domain (it asserts otherwise)
    ops.push(
        Op::new(nm::<T>("clamp"), &["C10"], &[k, k, k], out, |x, lo, hi| {
            if orc::cmp(T::F, lo, hi) != Ordering::Greater {
                T::fb(x).i_clamp(T::fb(lo), T::fb(hi)).tb()
            } else {
                0
            }
        })
        .slow(|x, lo, hi| {
            if orc::cmp(T::F, lo, hi) == Ordering::Greater {
                return None;
            }
            Some(if orc::cmp(T::F, x, lo) == Ordering::Less {
                lo
            } else if orc::cmp(T::F, x, hi) == Ordering::Greater {
                hi
            } else {
                x
            })
        })
        .note("only lo <= hi (by the exact order) is judged; clamp documents an assert otherwise"),
    );
    ops.push(
        Op::new(nm::<T>("neg"), &["C10"], &[k], out, |x, _, _| T::fb(x).i_neg().tb())
            .fast(|x, _, _| fe(T::F, fast::negate(fd(T::F, x))))
            .slow(|x, _, _| Some(Val::decode(T::F, x).neg().encode_bits(T::F))),
    );
    ops.push(
        Op::new(nm::<T>("op_neg"), &["C10"], &[k], out, |x, _, _| (-T::fb(x)).tb())
            .fast(|x, _, _| fe(T::F, fast::negate(fd(T::F, x))))
            .slow(|x, _, _| Some(Val::decode(T::F, x).neg().encode_bits(T::F))),
    );
    ops.push(
        Op::new(nm::<T>("neg_neg"), &["C10"], &[k], out, |x, _, _| T::fb(x).i_neg().i_neg().tb())
            .fast(|x, _, _| (x, 255))
            .slow(|x, _, _| Some(x)),
    );
    ops.push(
        Op::new(nm::<T>("abs"), &["C10"], &[k], out, |x, _, _| T::fb(x).i_abs().tb())
            .slow(|x, _, _| Some(Val::decode(T::F, x).abs().encode_bits(T::F))),
    );
    ops.push(
        Op::new(nm::<T>("signum"), &["C10"], &[k], out, |x, _, _| T::fb(x).i_signum().tb()).slow(
            |x, _, _| {
                Some(match Val::decode(T::F, x) {
                    Val::NaR => T::F.nar(),
                    Val::Zero => 0,
                    Val::Num { neg, .. } => Val::from_i128(if neg { -1 } else { 1 }).encode_bits(T::F),
                })
            },
        ),
    );
    ops.push(
        Op::new(nm::<T>("copysign"), &["C10"], &[k, k], out, |x, y, _| {
            T::fb(x).i_copysign(T::fb(y)).tb()
        })
        .slow(|x, y, _| {
            let v = Val::decode(T::F, x);
            let s = Val::decode(T::F, y);
            // the sign of NaR is not a real-number notion: property silent
            if s.is_nar() {
                return None;
            }
            if v.is_nar() {
                return Some(T::F.nar());
            }
            // zero carries no sign: a zero sign source counts as non-negative
            let r = if s.is_neg() { v.abs().neg() } else { v.abs() };
            Some(r.encode_bits(T::F))
        }),
    );
    pred_op!(ops, T, is_zero, i_is_zero, |v| Some(v.is_zero()));
    pred_op!(ops, T, is_nar, i_is_nar, |v| Some(v.is_nar()));
    pred_op!(ops, T, is_nan, i_is_nan, |v| Some(v.is_nar()));
    pred_op!(ops, T, is_finite, i_is_finite, |v| Some(!v.is_nar()));
    pred_op!(ops, T, is_infinite, i_is_infinite, |v| Some(v.is_nar()));
    // NaR is ordered below every real, hence below zero (statement of C10)
    pred_op!(ops, T, is_sign_negative, i_is_sign_negative, |v| Some(v.is_nar() || v.is_neg()));
    pred_op!(ops, T, is_sign_positive, i_is_sign_positive, |v| Some(!(v.is_nar() || v.is_neg())));
    ops.push(
        Op::new(nm::<T>("classify"), &["C10"], &[k], OutKind::Raw, |x, _, _| {
            use core::num::FpCategory::*;
            match T::fb(x).i_classify() {
                Zero => 0,
                Nan => 1,
                Normal => 2,
                Infinite => 3,
                Subnormal => 4,
            }
        })
        .slow(|x, _, _| {
            Some(match Val::decode(T::F, x) {
                Val::Zero => 0,
                Val::NaR => 1,
                _ => 2,
            })
        })
        .weight(0.25),
    );
}

macro_rules! conv {
    ($ops:ident, $S:ty, $SF:expr, $sname:literal, $D:ty, $DF:expr, $dname:literal, $to:ident, $from:ident) => {{
        let ks = Kind::Pat($SF);
        $ops.push(
            Op::new(
                format!("{}::{}", $sname, stringify!($to)),
                &["C08"],
                &[ks],
                OutKind::Pat($DF),
                |x, _, _| <$S>::fb(x).$to().tb(),
            )
            .fast(|x, _, _| fe($DF, fd($SF, x)))
            .slow(|x, _, _| Some(orc::convert($SF, $DF, x))),
        );
        $ops.push(
            Op::new(
                format!("{}::{}", $dname, stringify!($from)),
                &["C08"],
                &[ks],
                OutKind::Pat($DF),
                |x, _, _| <$D>::$from(<$S>::fb(x)).tb(),
            )
            .fast(|x, _, _| fe($DF, fd($SF, x)))
            .slow(|x, _, _| Some(orc::convert($SF, $DF, x))),
        );
        $ops.push(
            Op::new(
                format!("{}::From<{}>", $dname, $sname),
                &["C08"],
                &[ks],
                OutKind::Pat($DF),
                |x, _, _| <$D as From<$S>>::from(<$S>::fb(x)).tb(),
            )
            .fast(|x, _, _| fe($DF, fd($SF, x)))
            .slow(|x, _, _| Some(orc::convert($SF, $DF, x))),
        );
    }};
}

macro_rules! widen_narrow {
    ($ops:ident, $S:ty, $SF:expr, $sname:literal, $D:ty, $dname:literal) => {
        $ops.push(
            Op::new(
                format!("{}->{}->{}", $sname, $dname, $sname),
                &["C08"],
                &[Kind::Pat($SF)],
                OutKind::Pat($SF),
                |x, _, _| {
                    let w: $D = <$S>::fb(x).into();
                    let n: $S = w.into();
                    n.tb()
                },
            )
            .fast(|x, _, _| (x, 255))
            .slow(|x, _, _| Some(x)),
        );
    };
}

pub fn register(ops: &mut Vec<Op>) {
    register_fixed::<P8E0>(ops);
    register_fixed::<P16E1>(ops);
    register_fixed::<P32E2>(ops);

    // ---------------------------------------------------------------- C08 width conversions
    conv!(ops, P8E0, P8, "P8E0", P16E1, P16, "P16E1", to_p16e1, from_p8e0);
    conv!(ops, P8E0, P8, "P8E0", P32E2, P32, "P32E2", to_p32e2, from_p8e0);
    conv!(ops, P16E1, P16, "P16E1", P8E0, P8, "P8E0", to_p8e0, from_p16e1);
    conv!(ops, P16E1, P16, "P16E1", P32E2, P32, "P32E2", to_p32e2, from_p16e1);
    conv!(ops, P32E2, P32, "P32E2", P8E0, P8, "P8E0", to_p8e0, from_p32e2);
    conv!(ops, P32E2, P32, "P32E2", P16E1, P16, "P16E1", to_p16e1, from_p32e2);
    // widening then narrowing is the identity (differential on real code)
    widen_narrow!(ops, P8E0, P8, "P8E0", P16E1, "P16E1");
    widen_narrow!(ops, P8E0, P8, "P8E0", P32E2, "P32E2");
    widen_narrow!(ops, P16E1, P16, "P16E1", P32E2, "P32E2");
}
