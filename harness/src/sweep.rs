//! Generic monitor: drive one registry op over an input space (exhaustive or hostile
//! sampling), compare every result with the oracle, account coverage.

use crate::gen::{self, Kind};
use crate::json::J;
use crate::ops::{Op, OutKind, Registry};
use crate::rng::{mix64, Rng};
use crate::rt::{self, Cov, Ctx, Failure, Report, Sketch};
use std::panic::{catch_unwind, AssertUnwindSafe};

#[derive(Clone, Copy, Debug)]
pub enum Mode {
    /// enumerate the whole input space
    Exhaustive,
    /// `n` hostile samples
    Sample(u64),
    /// enumerate every `stride`-th point of the space starting at `offset` (seed-rotated)
    Strided { stride: u64, offset: u64 },
}

pub struct Plan {
    pub op: usize,
    pub mode: Mode,
    /// sub-space name for the evidence file
    pub name: String,
}

#[derive(Default)]
struct Local {
    cov: Cov,
    fails: Vec<Failure>,
    fail_count: u64,
    fast_false_alarm: u64,
    selfcheck_n: u64,
    selfcheck_bad: Vec<String>,
    sampled_classes: u32,
}

fn regime_len(f: crate::val::Fmt, p: u64) -> u32 {
    let p = p & f.mask();
    if p == 0 || p == f.nar() {
        return 0;
    }
    let q = if p >> (f.n - 1) != 0 { f.neg(p) } else { p };
    let nb = f.n - 1;
    let x = q << (64 - nb);
    let r0 = x >> 63 != 0;
    (if r0 { (!x).leading_zeros() } else { x.leading_zeros() }).min(nb)
}

fn is_special_input(k: Kind, v: u64) -> bool {
    match k {
        Kind::Pat(f) => v == 0 || v == f.nar(),
        Kind::F32(_) => {
            let x = f32::from_bits(v as u32);
            x == 0.0 || !x.is_finite()
        }
        Kind::F64(_) => {
            let x = f64::from_bits(v);
            x == 0.0 || !x.is_finite()
        }
        Kind::Int { .. } => v == 0,
        Kind::Small(_) => false,
    }
}

fn case_json(op: &Op, inp: &[u64; 3], got: u64, class: u8) -> J {
    let mut j = J::obj();
    j.set("op", J::s(&op.name));
    j.set(
        "inputs",
        J::arr(inp.iter().take(op.arity()).map(|&v| J::hex(v))),
    );
    j.set("result", J::hex(got));
    if (class as usize) < crate::val::ROUND_CLASS_NAMES.len() {
        j.set("class", J::s(crate::val::ROUND_CLASS_NAMES[class as usize]));
    }
    j
}

/// decompose a linear index into the mixed-radix input tuple (first input = most significant)
#[inline]
fn index_to_inputs(card: &[u64; 3], arity: usize, mut idx: u128, out: &mut [u64; 3]) {
    *out = [0; 3];
    for i in (0..arity).rev() {
        out[i] = (idx % card[i] as u128) as u64;
        idx /= card[i] as u128;
    }
}

pub fn run_plan(ctx: &Ctx, reg: &Registry, plan: &Plan, report: &mut Report) {
    let op = &reg.ops[plan.op];
    let arity = op.arity();
    let opi = plan.op;
    let mut card = [1u64; 3];
    let mut total: u128 = 1;
    let mut enumerable = true;
    for (i, k) in op.ins.iter().enumerate() {
        match k.cardinality() {
            Some(c) => {
                card[i] = c;
                total *= c as u128;
            }
            None => enumerable = false,
        }
    }
    let (ncases, exhaustive): (u128, bool) = match plan.mode {
        Mode::Exhaustive => {
            assert!(enumerable, "cannot enumerate {}", op.name);
            (total, true)
        }
        Mode::Sample(n) => (n as u128, false),
        Mode::Strided { stride, .. } => {
            assert!(enumerable);
            ((total + stride as u128 - 1) / stride as u128, stride == 1)
        }
    };
    let chunk: u128 = 1 << 14;
    let nshards = ((ncases + chunk - 1) / chunk) as u64;
    let sketch = match plan.mode {
        Mode::Sample(n) => {
            let want = ((n / 16).max(1024) * 8).next_power_of_two().trailing_zeros();
            Some(Sketch::new(want.clamp(16, 30)))
        }
        _ => None,
    };
    let opseed = mix64(ctx.seed ^ crate::rng::mix64(hash_str(&op.name)));
    let has_class = op.fast.is_some();
    let out_fmt = match op.out {
        OutKind::Pat(f) => Some((f, 0u32)),
        OutKind::PatLeft(f) => Some((f, 32 - f.n)),
        OutKind::Raw => None,
    };

    let work = |shard: u64, l: &mut Local| {
        let slot = rt::my_slot();
        let lo = shard as u128 * chunk;
        let hi = (lo + chunk).min(ncases);
        let mut rng = Rng::new(opseed, shard);
        let mut i = lo;
        let mut inp = [0u64; 3];
        while i < hi {
            let r = catch_unwind(AssertUnwindSafe(|| {
                while i < hi {
                    match plan.mode {
                        Mode::Exhaustive => index_to_inputs(&card, arity, i, &mut inp),
                        Mode::Strided { stride, offset } => {
                            let idx = i * stride as u128 + (offset % stride) as u128;
                            if idx >= total {
                                i += 1;
                                continue;
                            }
                            index_to_inputs(&card, arity, idx, &mut inp)
                        }
                        Mode::Sample(_) => gen::tuple(&mut rng, &op.ins, &mut inp),
                    }
                    let (a, b, c) = (inp[0], inp[1], inp[2]);
                    rt::enter(slot, opi, a, b, c);
                    let got = (op.run)(a, b, c);
                    rt::leave(slot);
                    l.cov.evaluations += 1;
                    let mut class = 255u8;
                    let mut ok = false;
                    let mut judged = false;
                    if let Some(fast) = &op.fast {
                        let (w, cl) = fast(a, b, c);
                        class = cl;
                        ok = w == got;
                        judged = true;
                        // watch the fast path itself: 1/2048 of agreeing cases re-judged slowly
                        if ok && (mix64(a ^ b.rotate_left(21) ^ c.rotate_left(42) ^ opseed) & 2047) == 0 {
                            if let Some(slow) = &op.slow {
                                l.selfcheck_n += 1;
                                match slow(a, b, c) {
                                    Some(w2) if w2 != w => {
                                        if l.selfcheck_bad.len() < 4 {
                                            l.selfcheck_bad.push(format!(
                                                "{} inputs {:x} {:x} {:x}: fast {:x} slow {:x}",
                                                op.name, a, b, c, w, w2
                                            ));
                                        }
                                    }
                                    _ => {}
                                }
                            }
                        }
                    }
                    if !ok {
                        if let Some(slow) = &op.slow {
                            let verdict = if op.differential {
                                // the other spelling is crate code too: guard it the same way
                                rt::enter(slot, opi, a, b, c);
                                let r = rt::guarded(|| slow(a, b, c));
                                rt::leave(slot);
                                match r {
                                    Ok(v) => v,
                                    Err(m) => {
                                        l.fail_count += 1;
                                        l.cov.failures += 1;
                                        if (l.fails.len() as u64) < rt::MAX_FAIL_PER_OP {
                                            l.fails.push(Failure {
                                                op: op.name.clone(),
                                                kind: "panic".into(),
                                                inputs: inp[..arity].to_vec(),
                                                got: format!("0x{:x}", got),
                                                want: "PANIC in the other spelling".into(),
                                                note: m,
                                            });
                                        }
                                        None
                                    }
                                }
                            } else {
                                slow(a, b, c)
                            };
                            match verdict {
                                None => {
                                    l.cov.skipped += 1;
                                    ok = true;
                                }
                                Some(w) => {
                                    if w == got {
                                        if judged && class != 254 {
                                            l.fast_false_alarm += 1;
                                        }
                                        ok = true;
                                    } else {
                                        l.fail_count += 1;
                                        l.cov.failures += 1;
                                        if (l.fails.len() as u64) < rt::MAX_FAIL_PER_OP {
                                            l.fails.push(Failure {
                                                op: op.name.clone(),
                                                kind: "mismatch".into(),
                                                inputs: inp[..arity].to_vec(),
                                                got: format!("0x{:x}", got),
                                                want: format!("0x{:x}", w),
                                                note: String::new(),
                                            });
                                        }
                                    }
                                }
                            }
                        } else if !judged {
                            ok = true; // nothing judges this op (catalogue-only)
                        } else {
                            // fast oracle only
                            l.fail_count += 1;
                            l.cov.failures += 1;
                            if (l.fails.len() as u64) < rt::MAX_FAIL_PER_OP {
                                l.fails.push(Failure {
                                    op: op.name.clone(),
                                    kind: "mismatch".into(),
                                    inputs: inp[..arity].to_vec(),
                                    got: format!("0x{:x}", got),
                                    want: "(fast oracle)".into(),
                                    note: String::new(),
                                });
                            }
                        }
                    }
                    let _ = ok;
                    // ---- coverage accounting
                    let nontrivial = if has_class && class < 9 {
                        l.cov.class_hist[class as usize] += 1;
                        (1..=6).contains(&class)
                    } else {
                        l.cov.unknown_class += 1;
                        !(0..arity).any(|j| is_special_input(op.ins[j], inp[j]))
                    };
                    if let Some((f, sh)) = out_fmt {
                        l.cov.out_regimes |= 1u64 << regime_len(f, got >> sh);
                    }
                    if nontrivial {
                        match &sketch {
                            None => l.cov.nontrivial += 1,
                            Some(sk) => {
                                let h = mix64(a ^ mix64(b ^ mix64(c)));
                                if h & 15 == 0 && sk.insert(h >> 4) {
                                    l.cov.nontrivial += 1;
                                }
                            }
                        }
                    }
                    let cbit = 1u32 << (class.min(31));
                    if l.sampled_classes & cbit == 0 && l.cov.samples.len() < 6 {
                        l.sampled_classes |= cbit;
                        l.cov.samples.push(case_json(op, &inp, got, class));
                    }
                    i += 1;
                }
            }));
            if r.is_err() {
                let msg = rt::take_panic_message();
                if slot.phase.load(std::sync::atomic::Ordering::Relaxed) == 1 {
                    rt::leave(slot);
                    l.cov.evaluations += 1;
                    if op.differential {
                        // spelling equivalence: the other spelling must panic as well
                        if let Some(slow) = &op.slow {
                            let (a, b, c) = (inp[0], inp[1], inp[2]);
                            rt::enter(slot, opi, a, b, c);
                            let other = rt::guarded(|| slow(a, b, c));
                            rt::leave(slot);
                            if other.is_err() {
                                l.cov.skipped += 1;
                                i += 1;
                                continue;
                            }
                        }
                    }
                    l.fail_count += 1;
                    l.cov.failures += 1;
                    if (l.fails.len() as u64) < rt::MAX_FAIL_PER_OP {
                        l.fails.push(Failure {
                            op: op.name.clone(),
                            kind: "panic".into(),
                            inputs: inp[..arity].to_vec(),
                            got: "PANIC".into(),
                            want: "a value".into(),
                            note: msg,
                        });
                    }
                    i += 1;
                } else {
                    // the oracle / harness panicked: not a verdict about the crate
                    eprintln!(
                        "HARNESS-ERROR: oracle panicked on {} inputs {:x?}: {}",
                        op.name,
                        &inp[..arity],
                        msg
                    );
                    std::process::exit(2);
                }
            }
        }
    };
    let locals = match rt::par_shards(ctx.threads, nshards, Local::default, work) {
        Ok(l) => l,
        Err(_) => unreachable!(),
    };
    let mut cov = Cov::default();
    let mut ffa = 0;
    let mut scn = 0;
    let mut kept = 0u64;
    let mut total_fail = 0u64;
    for l in locals {
        cov.merge(&l.cov);
        ffa += l.fast_false_alarm;
        scn += l.selfcheck_n;
        for b in l.selfcheck_bad {
            report.harness_errors.push(format!("fast/slow oracle disagreement: {}", b));
        }
        total_fail += l.fail_count;
        for f in l.fails {
            kept += 1;
            report.add_failure(f);
        }
    }
    if total_fail > kept {
        report.add_failure_count(&op.name, total_fail - kept);
    }
    if ffa > 0 {
        report
            .harness_errors
            .push(format!("{}: fast oracle raised {} false alarms (slow oracle agreed with the crate)", op.name, ffa));
    }
    let how = match plan.mode {
        Mode::Exhaustive => format!("all {} input tuples of ({})", total, kinds_str(op)),
        Mode::Sample(n) => format!("{} hostile samples of ({})", n, kinds_str(op)),
        Mode::Strided { stride, offset } => format!(
            "every {}-th of {} input tuples of ({}), offset {}",
            stride,
            total,
            kinds_str(op),
            offset % stride
        ),
    };
    // accumulate self-check count
    let prev = match &report.selfcheck {
        J::Obj(m) => match m.get("agreeing_cases_rejudged_by_slow_oracle") {
            Some(J::Int(v)) => *v as u64,
            _ => 0,
        },
        _ => 0,
    };
    report
        .selfcheck
        .set("agreeing_cases_rejudged_by_slow_oracle", J::u(prev + scn));
    report.add_subspace(&plan.name, cov, exhaustive, &how);
}

fn kinds_str(op: &Op) -> String {
    op.ins.iter().map(|k| k.name()).collect::<Vec<_>>().join(", ")
}

pub fn hash_str(s: &str) -> u64 {
    let mut h = 0xcbf2_9ce4_8422_2325u64;
    for b in s.bytes() {
        h ^= b as u64;
        h = h.wrapping_mul(0x1000_0000_01b3);
    }
    h
}

/// Standard planning rule for a property: exhaustive when the space has at most
/// `exh_log2` bits, otherwise `samples * weight` hostile samples.
pub fn plan_for(reg: &Registry, prop: &str, exh_log2: f64, samples: u64) -> Vec<Plan> {
    let mut v = Vec::new();
    for (i, op) in reg.for_prop(prop) {
        if op.stub {
            continue; // explicit not-implemented stub: nothing to judge
        }
        let sp = op.space_log2();
        // low-weight entries (extra spellings of an operation that is swept exhaustively under its
        // main entry) are not enumerated when the space is larger than 2^28
        let mode = if sp <= exh_log2 && !(op.weight < 1.0 && sp > 28.0) {
            Mode::Exhaustive
        } else {
            Mode::Sample(((samples as f64) * op.weight).max(1024.0) as u64)
        };
        v.push(Plan {
            op: i,
            mode,
            name: op.name.clone(),
        });
    }
    v
}
