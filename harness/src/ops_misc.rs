//! Registry entries that do not fit the fixed / generic / spelling files:
//! quire round trips (C12), helpers that only C16 names.

use crate::gen::Kind;
use crate::ops::{Op, OutKind};
use crate::pt::{PT, QT};
use softposit::{Q16E1, Q32E2, Q8E0};

fn quire_ops<Q: QT>(ops: &mut Vec<Op>) {
    let f = <Q::P as PT>::F;
    let k = Kind::Pat(f);
    ops.push(
        Op::new(
            format!("{}::from_posit.to_posit", Q::NAME),
            &["C12"],
            &[k],
            OutKind::Pat(f),
            |x, _, _| Q::i_from_posit(<Q::P as PT>::fb(x)).i_to_posit().tb(),
        )
        .fast(|x, _, _| (x, 255))
        .slow(|x, _, _| Some(x)),
    );
    ops.push(
        Op::new(
            format!("{}::From<posit>.to_posit", Q::NAME),
            &["C12"],
            &[k],
            OutKind::Pat(f),
            |x, _, _| Q::from_trait(<Q::P as PT>::fb(x)).i_to_posit().tb(),
        )
        .fast(|x, _, _| (x, 255))
        .slow(|x, _, _| Some(x))
        .weight(0.5),
    );
    // the quire made from p holds exactly p: its image is p in fixed point
    ops.push(
        Op::new(
            format!("{}::from_posit.image_digest", Q::NAME),
            &["C12"],
            &[k],
            OutKind::Raw,
            |x, _, _| {
                let q = Q::i_from_posit(<Q::P as PT>::fb(x));
                digest(&q.limbs_le(), q.i_is_zero(), q.i_is_nar())
            },
        )
        .slow(move |x, _, _| {
            let v = crate::val::Val::decode(f, x);
            if v.is_nar() {
                let mut l = vec![0u64; ((Q::TOTAL_BITS + 63) / 64) as usize];
                let top = l.len() - 1;
                l[top] = 1u64 << ((Q::TOTAL_BITS - 1) % 64);
                return Some(digest(&l, false, true));
            }
            let l = v.to_fixed(Q::TOTAL_BITS, Q::FRAC_BITS).expect("every posit fits its quire");
            Some(digest(&l, v.is_zero(), false))
        })
        .weight(0.5)
        .note("digest of (bit image, is_zero, is_nar) against the exact fixed-point image"),
    );
}

fn digest(l: &[u64], z: bool, n: bool) -> u64 {
    let mut h = 0x9e37u64 ^ ((z as u64) << 1) ^ (n as u64);
    for &w in l {
        h = crate::rng::mix64(h ^ w);
    }
    h
}

pub fn register(ops: &mut Vec<Op>) {
    quire_ops::<Q8E0>(ops);
    quire_ops::<Q16E1>(ops);
    quire_ops::<Q32E2>(ops);
}
