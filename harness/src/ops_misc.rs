//! Registry entries that do not fit the fixed / generic / spelling files:
//! quire round trips (C12), helpers that only C16 names.

use crate::gen::Kind;
use crate::ops::{Op, OutKind};
use crate::pt::{PT, QT};
use softposit::{Q16E1, Q32E2, Q8E0};

fn quire_ops<Q: QT>(ops: &mut Vec<Op>) {
    let f = <Q::P as PT>::F;
    let k = Kind::Pat(f);
    ops.push(
        Op::new(
            format!("{}::from_posit.to_posit", Q::NAME),
            &["C12"],
            &[k],
            OutKind::Pat(f),
            |x, _, _| Q::i_from_posit(<Q::P as PT>::fb(x)).i_to_posit().tb(),
        )
        .fast(|x, _, _| (x, 255))
        .slow(|x, _, _| Some(x)),
    );
    ops.push(
        Op::new(
            format!("{}::From<posit>.to_posit", Q::NAME),
            &["C12"],
            &[k],
            OutKind::Pat(f),
            |x, _, _| Q::from_trait(<Q::P as PT>::fb(x)).i_to_posit().tb(),
        )
        .fast(|x, _, _| (x, 255))
        .slow(|x, _, _| Some(x))
        .weight(0.5),
    );
    // the quire made from p holds exactly p: its image is p in fixed point
    ops.push(
        Op::new(
            format!("{}::from_posit.image_digest", Q::NAME),
            &["C12"],
            &[k],
            OutKind::Raw,
            |x, _, _| {
                let q = Q::i_from_posit(<Q::P as PT>::fb(x));
                digest(&q.limbs_le(), q.i_is_zero(), q.i_is_nar())
            },
        )
        .slow(move |x, _, _| {
            let v = crate::val::Val::decode(f, x);
            if v.is_nar() {
                let mut l = vec![0u64; ((Q::TOTAL_BITS + 63) / 64) as usize];
                let top = l.len() - 1;
                l[top] = 1u64 << ((Q::TOTAL_BITS - 1) % 64);
                return Some(digest(&l, false, true));
            }
            let l = v.to_fixed(Q::TOTAL_BITS, Q::FRAC_BITS).expect("every posit fits its quire");
            Some(digest(&l, v.is_zero(), false))
        })
        .weight(0.5)
        .note("digest of (bit image, is_zero, is_nar) against the exact fixed-point image"),
    );
}

fn digest(l: &[u64], z: bool, n: bool) -> u64 {
    let mut h = 0x9e37u64 ^ ((z as u64) << 1) ^ (n as u64);
    for &w in l {
        h = crate::rng::mix64(h ^ w);
    }
    h
}

/// C19: the words fed to the generator are chosen so that `gen_range` returns exactly the
/// value `x` of its range (rand 0.8 maps a 32-bit word v to floor(v * range / 2^32));
/// the low bits of each word are filled from a hash so that the stream is not degenerate.
/// Result: 1 if the sample is a real posit in [0,1), 0 otherwise, 2 if it panicked.
pub fn steer_word(x: u64, range_log2: u32, salt: u64) -> u32 {
    let sh = 32 - range_log2;
    let low = if sh == 0 { 0 } else { (crate::rng::mix64(x ^ salt) as u32) & ((1u32 << sh) - 1) };
    // keep the low part small enough that rand's rejection zone accepts it
    ((x as u32) << sh) | (low >> 1)
}

fn sample_ops(ops: &mut Vec<Op>) {
    use crate::mon::rngmon::in_unit_interval;
    use crate::steer::Steered;
    use rand::Rng as _;
    use steer_word as word;
    #[allow(dead_code)]
    fn word_unused(x: u64, range_log2: u32, salt: u64) -> u32 {
        let sh = 32 - range_log2;
        let low = if sh == 0 { 0 } else { (crate::rng::mix64(x ^ salt) as u32) & ((1u32 << sh) - 1) };
        // keep the low part small enough that rand's rejection zone accepts it
        ((x as u32) << sh) | (low >> 1)
    }
    ops.push(
        Op::new("P8E0::sample_steered", &["C19"], &[Kind::Small(64)], OutKind::Raw, |x, _, _| {
            let mut rng = Steered::new(&[word(x, 6, 8)], x);
            let p: softposit::P8E0 = rng.gen();
            in_unit_interval(crate::val::P8, p.to_bits() as u64) as u64
        })
        .slow(|_, _, _| Some(1))
        .note("all 64 values of gen_range(0..0x40)"),
    );
    ops.push(
        Op::new("P16E1::sample_steered", &["C19"], &[Kind::Small(1 << 18)], OutKind::Raw, |x, _, _| {
            let mut rng = Steered::new(&[word(x, 18, 16)], x);
            let p: softposit::P16E1 = rng.gen();
            in_unit_interval(crate::val::P16, p.to_bits() as u64) as u64
        })
        .slow(|_, _, _| Some(1))
        .note("all 2^18 values of gen_range(0..0x4_0000)"),
    );
    ops.push(
        Op::new(
            "P32E2::sample_steered",
            &["C19"],
            &[Kind::Small(1 << 27), Kind::Small(4)],
            OutKind::Raw,
            |x, y, _| {
                let mut rng = Steered::new(&[word(x, 27, 32), word(y, 2, 33)], x ^ (y << 40));
                let p: softposit::P32E2 = rng.gen();
                in_unit_interval(crate::val::P32, p.to_bits() as u64) as u64
            },
        )
        .slow(|_, _, _| Some(1))
        .note("all 2^27 x 4 values of the two gen_range calls"),
    );
    ops.push(
        Op::new(
            "P32E2::sample_steered_range_ends",
            &["C19"],
            &[Kind::Small(512), Kind::Small(4)],
            OutKind::Raw,
            |i, y, _| {
                // the 256 smallest and the 256 largest values of the first gen_range, all 4 of the second
                let x = if i < 256 { i } else { (1u64 << 27) - 512 + i };
                let mut rng = Steered::new(&[word(x, 27, 32), word(y, 2, 33)], x ^ (y << 40));
                let p: softposit::P32E2 = rng.gen();
                in_unit_interval(crate::val::P32, p.to_bits() as u64) as u64
            },
        )
        .slow(|_, _, _| Some(1))
        .note("both ends of the first range x all values of the second (exhaustive in both tiers)"),
    );
    // the raw sample for a given pair of generator words (used by replays / C16)
    ops.push(Op::new(
        "P16E1::sample_from_words",
        &["C16"],
        &[Kind::Int { bits: 32, signed: false, f: crate::val::P16 }],
        OutKind::Pat(crate::val::P16),
        |x, _, _| {
            let mut rng = Steered::new(&[x as u32], x);
            let p: softposit::P16E1 = rng.gen();
            p.to_bits() as u64
        },
    ));
}

pub fn register(ops: &mut Vec<Op>) {
    sample_ops(ops);
    register_c11(ops);
    quire_ops::<Q8E0>(ops);
    quire_ops::<Q16E1>(ops);
    quire_ops::<Q32E2>(ops);
}

// ---------------------------------------------------------------------------- C11 tables
pub struct Tables {
    pub p16: std::collections::BTreeMap<&'static str, Vec<u16>>,
    pub p8: std::collections::BTreeMap<&'static str, Vec<u8>>,
    pub dir: String,
}
static TABLES: std::sync::OnceLock<Option<Tables>> = std::sync::OnceLock::new();
pub const P16_FUNCS: [&str; 10] = [
    "exp", "exp2", "ln", "log2", "sin_pi", "cos_pi", "tan_pi", "asin_pi", "acos_pi", "atan_pi",
];
pub const P8_FUNCS: [&str; 2] = ["exp", "ln"];

pub fn tables() -> Option<&'static Tables> {
    TABLES
        .get_or_init(|| {
            let dir = std::env::var("SPVERIF_TABLES").ok()?;
            let mut t = Tables { p16: Default::default(), p8: Default::default(), dir: dir.clone() };
            for f in P16_FUNCS {
                let b = std::fs::read(format!("{}/{}_p16.bin", dir, f)).ok()?;
                if b.len() != 131072 {
                    return None;
                }
                t.p16.insert(f, b.chunks(2).map(|c| u16::from_le_bytes([c[0], c[1]])).collect());
            }
            for f in P8_FUNCS {
                let b = std::fs::read(format!("{}/{}_p8.bin", dir, f)).ok()?;
                if b.len() != 256 {
                    return None;
                }
                t.p8.insert(f, b);
            }
            Some(t)
        })
        .as_ref()
}

macro_rules! c11_16 {
    ($ops:ident, $f:ident) => {
        $ops.push(
            Op::new(
                concat!("P16E1::", stringify!($f)),
                &["C11"],
                &[Kind::Pat(crate::val::P16)],
                OutKind::Pat(crate::val::P16),
                |x, _, _| softposit::P16E1::from_bits(x as u16).$f().to_bits() as u64,
            )
            .slow(|x, _, _| tables().map(|t| t.p16[stringify!($f)][x as usize] as u64)),
        );
    };
}
macro_rules! c11_8 {
    ($ops:ident, $f:ident) => {
        $ops.push(
            Op::new(
                concat!("P8E0::", stringify!($f)),
                &["C11"],
                &[Kind::Pat(crate::val::P8)],
                OutKind::Pat(crate::val::P8),
                |x, _, _| softposit::P8E0::from_bits(x as u8).$f().to_bits() as u64,
            )
            .slow(|x, _, _| tables().map(|t| t.p8[stringify!($f)][x as usize] as u64)),
        );
    };
}

pub fn register_c11(ops: &mut Vec<Op>) {
    c11_16!(ops, exp);
    c11_16!(ops, exp2);
    c11_16!(ops, ln);
    c11_16!(ops, log2);
    c11_16!(ops, sin_pi);
    c11_16!(ops, cos_pi);
    c11_16!(ops, tan_pi);
    c11_16!(ops, asin_pi);
    c11_16!(ops, acos_pi);
    c11_16!(ops, atan_pi);
    c11_8!(ops, exp);
    c11_8!(ops, ln);
}
