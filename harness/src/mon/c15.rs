//! C15: P32E2 elementary functions stay within their stated ULP bound.
//!
//! Stage 1 (here): the real function is compared with glibc's f64 libm result. All patterns
//! that are the correct rounding of some value in y*(1 +- 2^-45) form an interval of
//! candidates; the distance of the crate's result to that interval can only under-estimate
//! the true error, so stage 1 never reports a case whose true error is within the bound.
//! Anything over the bound (or a NaR / real mismatch) is written to the report as a *suspect*.
//! Stage 2 (tools/arbiter.py, mpmath) decides the suspects.

use crate::fast;
use crate::json::J;
use crate::rng::{mix64, Rng};
use crate::rt::{self, Cov, Ctx, Report, Sketch};
use crate::val::P32;
use softposit::P32E2;

#[derive(Clone, Copy)]
pub struct Func {
    pub name: &'static str,
    pub arity: usize,
    pub bound: i64,
    /// domain of each argument as a half-open range of i32 patterns (the crate's own test ranges)
    pub lo: i32,
    pub hi: i32,
    pub real1: fn(P32E2) -> P32E2,
    pub real2: fn(P32E2, P32E2) -> P32E2,
    pub ref1: fn(f64) -> f64,
    pub ref2: fn(f64, f64) -> f64,
}

fn no1(_: P32E2) -> P32E2 {
    P32E2::ZERO
}
fn no2(_: P32E2, _: P32E2) -> P32E2 {
    P32E2::ZERO
}
fn nr1(_: f64) -> f64 {
    0.0
}
fn nr2(_: f64, _: f64) -> f64 {
    0.0
}

const TRIG: i32 = 0x7d40_0000;
const ONE: i32 = 0x4000_0000;
const MAXP: i32 = 0x7fff_ffff;

macro_rules! f1 {
    ($name:literal, $bound:expr, $lo:expr, $hi:expr, $m:ident, $r:expr) => {
        Func { name: $name, arity: 1, bound: $bound, lo: $lo, hi: $hi, real1: |x| x.$m(), real2: no2, ref1: $r, ref2: nr2 }
    };
}
macro_rules! f2 {
    ($name:literal, $bound:expr, $lo:expr, $hi:expr, $m:ident, $r:expr) => {
        Func { name: $name, arity: 2, bound: $bound, lo: $lo, hi: $hi, real1: no1, real2: |x, y| x.$m(y), ref1: nr1, ref2: $r }
    };
}

pub fn funcs() -> Vec<Func> {
    vec![
        f1!("sin", 2, -TRIG + 1, TRIG - 1, sin, f64::sin),
        f1!("cos", 2, -TRIG + 1, TRIG - 1, cos, f64::cos),
        f1!("tan", 3, -TRIG + 1, TRIG - 1, tan, f64::tan),
        f1!("asin", 3, -ONE, ONE + 1, asin, f64::asin),
        f1!("acos", 2, -ONE, ONE + 1, acos, f64::acos),
        f1!("atan", 3, -MAXP, MAXP, atan, f64::atan),
        f1!("cbrt", 4, -MAXP, MAXP, cbrt, f64::cbrt),
        f1!("ln", 2, 1, MAXP, ln, f64::ln),
        f1!("log2", 3, 1, MAXP, log2, f64::log2),
        f1!("exp", 1, -0x6a80_0000, 0x6a80_0000, exp, f64::exp),
        f1!("exp2", 1, -0x6cb0_0000, 0x6c00_0000, exp2, f64::exp2),
        f1!("sinh", 4, -0x6980_0000, 0x6980_0000, sinh, f64::sinh),
        f1!("cosh", 2, -0x6980_0000, 0x6980_0000, cosh, f64::cosh),
        f2!("atan2", 3, -MAXP, MAXP, atan2, f64::atan2),
        f2!("hypot", 4, -MAXP, MAXP, hypot, f64::hypot),
        f2!("powf", 5, 0x3800_0000, 0x5200_0000, powf, f64::powf),
    ]
}

#[inline]
fn to_f64(p: u32) -> f64 {
    f64::from_bits(fast::to_f64_bits(fast::decode(P32, p)).0)
}
#[inline]
fn enc(y: f64) -> i32 {
    fast::encode(P32, fast::from_f64_bits(y.to_bits())) as i32
}

/// distance (in encodings) of `got` from the candidate interval around libm's value;
/// None = the reference says "not a real number" (want NaR)
#[inline]
pub fn stage1(y: f64, got: u32) -> (i64, i32, i32) {
    const NAR: i32 = i32::MIN;
    if y.is_nan() {
        let d = if got as i32 == NAR { 0 } else { i64::MAX };
        return (d, NAR, NAR);
    }
    let y = if y.is_infinite() { f64::MAX.copysign(y) } else { y };
    let eps = 2.0f64.powi(-45);
    let (a, b) = (y * (1.0 - eps), y * (1.0 + eps));
    let (lo, hi) = if a <= b { (enc(a), enc(b)) } else { (enc(b), enc(a)) };
    // y == 0 exactly: both ends are 0
    let g = got as i32;
    if g == NAR {
        return (i64::MAX, lo, hi);
    }
    let d = if g < lo {
        lo as i64 - g as i64
    } else if g > hi {
        g as i64 - hi as i64
    } else {
        0
    };
    (d, lo, hi)
}

/// interesting arguments of a unary function (as patterns), seed independent
fn landmarks(f: &Func) -> Vec<i32> {
    let mut v: Vec<i32> = Vec::new();
    let mut push_around = |x: f64, v: &mut Vec<i32>| {
        let p = enc(x);
        for d in -6..=6 {
            v.push(p.wrapping_add(d));
        }
    };
    // domain ends, zero, one, the smallest magnitudes
    for d in 0..4096 {
        v.push(d);
        v.push(-d);
        v.push(f.lo.wrapping_add(d));
        v.push(f.hi.wrapping_sub(1 + d));
    }
    for s in -120..=120 {
        push_around(2f64.powi(s), &mut v);
        push_around(-(2f64.powi(s)), &mut v);
    }
    match f.name {
        "sin" | "cos" | "tan" => {
            // every multiple of pi/4 up to the reduction limit (about 500 000 of them): the
            // posits nearest to a multiple of pi/2 are the worst cases of the argument
            // reduction (the reduced argument is smallest there, so an error in the low words
            // of pi is largest relative to the result); +-6 patterns around the first 4096
            // multiples, +-2 around the others
            let mut k = 1u64;
            while (k as f64) * std::f64::consts::FRAC_PI_4 < 393_216.0 {
                let x = (k as f64) * std::f64::consts::FRAC_PI_4;
                if k < 4096 {
                    push_around(x, &mut v);
                    push_around(-x, &mut v);
                } else {
                    let p = enc(x);
                    for d in -2..=2 {
                        v.push(p.wrapping_add(d));
                        v.push(p.wrapping_add(d).wrapping_neg());
                    }
                }
                k += 1;
            }
        }
        "exp" | "sinh" | "cosh" => {
            for k in -160..=160 {
                push_around(k as f64 * std::f64::consts::LN_2, &mut v);
                push_around(k as f64 * std::f64::consts::LN_2 * 0.5, &mut v);
            }
        }
        "exp2" => {
            for k in -151..=129 {
                push_around(k as f64, &mut v);
                push_around(k as f64 + 0.5, &mut v);
            }
        }
        "asin" | "acos" => {
            for x in [0.5, -0.5, 1.0, -1.0, 0.707_106_781_186_547_5, 0.866_025_403_784_438_6] {
                push_around(x, &mut v);
                push_around(-x, &mut v);
            }
        }
        "cbrt" => {
            for k in 1..200 {
                push_around((k * k * k) as f64, &mut v);
                push_around(1.0 / (k * k * k) as f64, &mut v);
            }
        }
        "ln" | "log2" => {
            for k in -40..=40 {
                push_around(std::f64::consts::E.powi(k), &mut v);
            }
            for d in -4096..4096 {
                v.push(ONE + d); // around 1: the result passes through zero
            }
        }
        _ => {}
    }
    v.retain(|&p| p >= f.lo && p < f.hi && p != i32::MIN);
    v.sort_unstable();
    v.dedup();
    v
}

#[derive(Default)]
struct L {
    cov: Cov,
    suspects: Vec<J>,
    suspect_count: u64,
    passing: Vec<J>,
    max_dist: i64,
    hist: [u64; 8],
    nar_expected: u64,
    panics: Vec<rt::Failure>,
}

fn record(l: &mut L, f: &Func, a: u32, b: u32, got: u32, d: i64, lo: i32, hi: i32, r: &mut Rng) {
    l.cov.evaluations += 1;
    let bucket = if d == i64::MAX { 7 } else { (d.min(6)) as usize };
    l.hist[bucket] += 1;
    if d != i64::MAX && d > l.max_dist {
        l.max_dist = d;
    }
    if lo == i32::MIN {
        l.nar_expected += 1;
    }
    let case = |kind: &str| {
        J::obj()
            .with("fn", J::s(f.name))
            .with("inputs", J::arr((0..f.arity).map(|i| J::hex(if i == 0 { a } else { b } as u64))))
            .with("got", J::hex(got as u64))
            .with("stage1_distance", if d == i64::MAX { J::s("nar/real mismatch") } else { J::i(d) })
            .with("stage1_candidates", J::arr([J::hex(lo as u32 as u64), J::hex(hi as u32 as u64)]))
            .with("bound", J::i(f.bound))
            .with("kind", J::s(kind))
    };
    if d > f.bound {
        l.suspect_count += 1;
        if l.suspects.len() < 64 {
            l.suspects.push(case("suspect"));
        }
    } else if r.below(1 << 14) == 0 && l.passing.len() < 16 {
        l.passing.push(case("passing_sample"));
    }
    if l.cov.samples.len() < 2 {
        l.cov.samples.push(case("sample"));
    }
}

pub fn run(ctx: &Ctx, rep: &mut Report) {
    let full = std::env::var("SPVERIF_C15_FULL").is_ok();
    let only = std::env::var("SPVERIF_ONLY").ok();
    let mut all_suspects: Vec<J> = Vec::new();
    let mut all_passing: Vec<J> = Vec::new();
    let mut per_fn = J::obj();
    for f in funcs() {
        if let Some(o) = &only {
            if !f.name.contains(o.as_str()) {
                continue;
            }
        }
        let marks = if f.arity == 1 { landmarks(&f) } else { Vec::new() };
        let span = (f.hi as i64 - f.lo as i64) as u64;
        // unary: quick = 2^24 uniform over the domain + landmarks; thorough = every 16th pattern of
        // the domain (seed-rotated offset) + landmarks; full = every pattern
        let (n_uniform, stride): (u64, u64) = if f.arity == 2 {
            (ctx.pick(1 << 24, 1 << 29), 0)
        } else if full {
            (0, 1)
        } else if ctx.quick() {
            ((1 << 24) >> crate::rt::scale_shift(), 0)
        } else {
            (0, 16)
        };
        let n_strided = if stride > 0 { (span + stride - 1) / stride } else { 0 };
        let total = n_uniform + n_strided + marks.len() as u64;
        let chunk = 1u64 << 14;
        let nshards = (total + chunk - 1) / chunk;
        let seed = mix64(ctx.seed ^ crate::sweep::hash_str(f.name) ^ 0xc15);
        let offset = if stride > 1 { seed % stride } else { 0 };
        let sketch = Sketch::new(28);
        let exhaustive_domain = stride == 1;
        let locals = rt::par_shards(ctx.threads, nshards, L::default, |shard, l: &mut L| {
            let slot = rt::my_slot();
            let mut r = Rng::new(seed, shard);
            let lo_i = shard * chunk;
            let hi_i = (lo_i + chunk).min(total);
            for i in lo_i..hi_i {
                // pick the case
                let (a, b): (u32, u32) = if f.arity == 1 {
                    let p = if i < marks.len() as u64 {
                        marks[i as usize]
                    } else if i < marks.len() as u64 + n_strided {
                        let j = i - marks.len() as u64;
                        (f.lo as i64 + (j * stride + offset) as i64).min(f.hi as i64 - 1) as i32
                    } else {
                        (f.lo as i64 + r.below(span) as i64) as i32
                    };
                    (p as u32, 0)
                } else {
                    // pairs: uniform over the domain square, hostile patterns, equal / opposite /
                    // neighbouring arguments
                    let pick = |r: &mut Rng| -> i32 {
                        match r.below(4) {
                            0 | 1 => (f.lo as i64 + r.below(span) as i64) as i32,
                            _ => {
                                let p = crate::gen::pat(r, P32) as u32 as i32;
                                if p >= f.lo && p < f.hi && p != i32::MIN {
                                    p
                                } else {
                                    (f.lo as i64 + r.below(span) as i64) as i32
                                }
                            }
                        }
                    };
                    let a = pick(&mut r);
                    let b = match r.below(8) {
                        0 => a,
                        1 => a.wrapping_neg().clamp(f.lo, f.hi - 1),
                        2 => a.wrapping_add(r.range(-8, 8) as i32).clamp(f.lo, f.hi - 1),
                        _ => pick(&mut r),
                    };
                    (a as u32, b as u32)
                };
                if a as i32 == i32::MIN || (f.arity == 2 && b as i32 == i32::MIN) {
                    continue;
                }
                // atan2(0, 0) has no mathematical value: outside the supported domain
                if f.name == "atan2" && a == 0 && b == 0 {
                    continue;
                }
                let (xa, xb) = (to_f64(a), to_f64(b));
                if f.arity == 1 {
                    rt::doing_set(&format!("P32E2::{}", f.name), &[a as u64]);
                } else {
                    rt::doing_set(&format!("P32E2::{}", f.name), &[a as u64, b as u64]);
                }
                rt::enter(slot, usize::MAX - 8, a as u64, b as u64, 0);
                let res = rt::guarded(|| {
                    if f.arity == 1 {
                        (f.real1)(P32E2::from_bits(a)).to_bits()
                    } else {
                        (f.real2)(P32E2::from_bits(a), P32E2::from_bits(b)).to_bits()
                    }
                });
                rt::leave(slot);
                let got = match res {
                    Ok(g) => g,
                    Err(m) => {
                        l.cov.evaluations += 1;
                        l.cov.failures += 1;
                        if l.panics.len() < 4 {
                            l.panics.push(rt::Failure {
                                op: format!("P32E2::{}", f.name),
                                kind: "panic".into(),
                                inputs: if f.arity == 1 { vec![a as u64] } else { vec![a as u64, b as u64] },
                                got: "PANIC".into(),
                                want: "a value".into(),
                                note: m,
                            });
                        }
                        continue;
                    }
                };
                let y = if f.arity == 1 { (f.ref1)(xa) } else { (f.ref2)(xa, xb) };
                let (d, lo, hi) = stage1(y, got);
                record(l, &f, a, b, got, d, lo, hi, &mut r);
                if got != 0 && got as i32 != i32::MIN {
                    if exhaustive_domain {
                        l.cov.nontrivial += 1;
                    } else {
                        let h = mix64(a as u64 ^ ((b as u64) << 32));
                        if sketch.insert(h) {
                            l.cov.nontrivial += 1;
                        }
                    }
                }
            }
        })
        .unwrap_or_else(|_| unreachable!());
        let mut cov = Cov::default();
        let mut hist = [0u64; 8];
        let mut maxd = 0i64;
        let mut nsus = 0u64;
        let mut nar = 0u64;
        for l in locals {
            cov.merge(&l.cov);
            for i in 0..8 {
                hist[i] += l.hist[i];
            }
            maxd = maxd.max(l.max_dist);
            nsus += l.suspect_count;
            nar += l.nar_expected;
            for s in l.suspects {
                if all_suspects.len() < 4096 {
                    all_suspects.push(s);
                }
            }
            for s in l.passing {
                if all_passing.len() < 400 {
                    all_passing.push(s);
                }
            }
            for p in l.panics {
                rep.add_failure(p);
            }
        }
        per_fn.set(
            f.name,
            J::obj()
                .with("bound_ulp", J::i(f.bound))
                .with("domain_patterns", J::arr([J::hex(f.lo as u32 as u64), J::hex(f.hi as u32 as u64)]))
                .with("landmark_inputs", J::u(marks.len() as u64))
                .with("stage1_distance_histogram_0_to_6plus_and_mismatch", J::arr(hist.iter().map(|&h| J::u(h))))
                .with("stage1_max_distance", J::i(maxd))
                .with("stage1_suspects", J::u(nsus))
                .with("inputs_where_reference_is_not_real", J::u(nar)),
        );
        let how = if f.arity == 2 {
            format!("{} argument pairs: uniform over the domain square, hostile patterns, equal / opposite / neighbouring arguments", n_uniform)
        } else if stride == 1 {
            format!("every one of the {} patterns of the domain + {} landmarks", span, marks.len())
        } else if stride > 1 {
            format!("every {}th pattern of the domain (offset {}) = {} inputs + {} landmarks (argument-reduction boundaries, powers of two, domain ends, smallest magnitudes)", stride, offset, n_strided, marks.len())
        } else {
            format!("{} uniform patterns of the domain + {} landmarks (argument-reduction boundaries, powers of two, domain ends, smallest magnitudes)", n_uniform, marks.len())
        };
        rep.add_subspace(&format!("P32E2::{}", f.name), cov, exhaustive_domain, &how);
    }
    class_checks(ctx, rep, only.as_deref());
    rep.extra.set("per_function", per_fn);
    rep.extra.set("suspects", J::Arr(all_suspects));
    rep.extra.set("passing_samples_for_arbiter", J::Arr(all_passing));
}


/// "NaR inputs and arguments outside the real domain give NaR" (+ for powf over *all* pairs: the
/// result is NaR exactly where x^y has no real value, and otherwise real with the mathematically
/// required sign). Decided here, no arbiter needed: the expected answer is a class, not a value.
fn class_checks(ctx: &Ctx, rep: &mut Report, only: Option<&str>) {
    const NAR: u32 = 0x8000_0000;
    let n = ctx.pick(1 << 18, 1 << 22);
    for f in funcs() {
        if let Some(o) = only {
            if !f.name.contains(o) {
                continue;
            }
        }
        let chunk = 1u64 << 12;
        let nshards = (n + chunk - 1) / chunk;
        let seed = mix64(ctx.seed ^ crate::sweep::hash_str(f.name) ^ 0xc15c);
        struct L2 {
            cov: Cov,
            fails: Vec<rt::Failure>,
            n: u64,
        }
        let locals = rt::par_shards(
            ctx.threads,
            nshards,
            || L2 { cov: Cov::default(), fails: vec![], n: 0 },
            |shard, l: &mut L2| {
                let slot = rt::my_slot();
                let mut r = Rng::new(seed, shard);
                for _ in 0..chunk {
                    // choose a case whose required class is known
                    let mut a = crate::gen::pat(&mut r, P32) as u32;
                    let mut b = crate::gen::pat(&mut r, P32) as u32;
                    // expected: Some(true) = NaR required, Some(false) = real required (+ sign), None = skip
                    let mut want_neg: Option<bool> = None;
                    let want_nar: Option<bool> = match f.name {
                        "ln" | "log2" => {
                            if r.chance(1, 4) {
                                a = NAR;
                            } else if (a as i32) > 0 {
                                a = (a as i32).wrapping_neg() as u32; // x <= 0
                            }
                            Some(true)
                        }
                        "asin" | "acos" => {
                            if r.chance(1, 4) {
                                a = NAR;
                                Some(true)
                            } else {
                                let x = to_f64(a);
                                if x.abs() > 1.0 { Some(true) } else { None }
                            }
                        }
                        "powf" => {
                            match r.below(10) {
                                0 => a = NAR,
                                1 => b = NAR,
                                8 => {
                                    // a NaR operand next to the shortcut values y = 0 and x = 1
                                    a = NAR;
                                    b = if r.chance(1, 2) { 0 } else { enc(r.range(-2, 2) as f64) as u32 };
                                }
                                9 => {
                                    b = NAR;
                                    a = if r.chance(1, 2) { 0x4000_0000 } else { (0x4000_0000i64 + r.range(-2, 2)) as u32 };
                                }
                                2 => {
                                    // integer exponents next to the parity threshold
                                    // (uniform, or a power of two +- 0..2: the largest odd integer
                                    // a P32E2 holds is 2^23 - 1)
                                    let k = if r.chance(1, 2) {
                                        r.range(-(1 << 24), 1 << 24)
                                    } else {
                                        let v = (1i64 << r.range(0, 31)) + r.range(-2, 2);
                                        if r.chance(1, 2) { -v } else { v }
                                    };
                                    b = enc(k as f64) as u32;
                                    if r.chance(1, 2) {
                                        a |= 0x8000_0000; // a negative base makes the parity visible
                                        if a == NAR {
                                            a = 0xc000_0000;
                                        }
                                    }
                                }
                                3 => b = enc(r.range(-40, 40) as f64) as u32,
                                4 => a = 0,
                                _ => {}
                            }
                            let (x, y) = (to_f64(a), to_f64(b));
                            let yint = y == y.trunc();
                            let yodd = yint && y.abs() < 9.0e15 && ((y.abs() as u64) & 1) == 1;
                            if a == NAR || b == NAR {
                                // the statement is explicit: a NaR input gives NaR (also for the
                                // IEEE-style shortcuts pow(x, 0) = 1 and pow(1, y) = 1)
                                Some(true)
                            } else if b == 0 || a == 0x4000_0000 {
                                want_neg = Some(false);
                                Some(false)
                            } else if a == 0 {
                                if y < 0.0 { Some(true) } else { None }
                            } else if x < 0.0 && !yint {
                                Some(true)
                            } else if (y * x.abs().log2()).abs() >= 119.0 {
                                // |x^y| beyond maxpos / below minpos: the crate has no stated behaviour
                                // there (its exp returns NaR above 104), outside the supported domain
                                None
                            } else {
                                want_neg = Some(x < 0.0 && yodd);
                                Some(false)
                            }
                        }
                        _ => {
                            // NaR in, NaR out
                            if f.arity == 1 || r.chance(1, 2) { a = NAR } else { b = NAR }
                            Some(true)
                        }
                    };
                    let Some(want_nar) = want_nar else { continue };
                    if f.name != "powf" && a != NAR && b != NAR && !(matches!(f.name, "ln" | "log2" | "asin" | "acos")) {
                        continue;
                    }
                    // sin/cos/tan outside their reduction range are explicit stubs
                    if matches!(f.name, "sin" | "cos" | "tan") && a != NAR {
                        continue;
                    }
                    rt::enter(slot, usize::MAX - 9, a as u64, b as u64, 0);
                    let res = rt::guarded(|| {
                        if f.arity == 1 {
                            (f.real1)(P32E2::from_bits(a)).to_bits()
                        } else {
                            (f.real2)(P32E2::from_bits(a), P32E2::from_bits(b)).to_bits()
                        }
                    });
                    rt::leave(slot);
                    l.cov.evaluations += 1;
                    l.cov.nontrivial += 1;
                    let inputs = if f.arity == 1 { vec![a as u64] } else { vec![a as u64, b as u64] };
                    let bad: Option<(String, String)> = match res {
                        Err(m) => Some(("PANIC".into(), m)),
                        Ok(g) => {
                            if want_nar && g != NAR {
                                Some((format!("0x{:x}", g), "NaR (no real value)".into()))
                            } else if !want_nar && g == NAR {
                                Some(("0x80000000".into(), "a real value".into()))
                            } else if let (false, Some(neg)) = (want_nar, want_neg) {
                                let gneg = (g as i32) < 0;
                                if g != 0 && gneg != neg {
                                    Some((format!("0x{:x}", g), format!("a {} value", if neg { "negative" } else { "positive" })))
                                } else {
                                    None
                                }
                            } else {
                                None
                            }
                        }
                    };
                    if l.cov.samples.is_empty() {
                        l.cov.samples.push(
                            J::obj()
                                .with("fn", J::s(f.name))
                                .with("inputs", J::arr(inputs.iter().map(|&v| J::hex(v))))
                                .with("required_class", J::s(if want_nar { "NaR" } else { "real" })),
                        );
                    }
                    if let Some((got, want)) = bad {
                        l.n += 1;
                        l.cov.failures += 1;
                        if l.fails.len() < 6 {
                            l.fails.push(rt::Failure {
                                op: format!("P32E2::{}", f.name),
                                kind: "class".into(),
                                inputs,
                                got,
                                want,
                                note: "NaR / real class or sign required by the mathematical function".into(),
                            });
                        }
                    }
                }
            },
        )
        .unwrap_or_else(|_| unreachable!());
        let mut cov = Cov::default();
        let mut total = 0;
        let mut kept = 0;
        for l in locals {
            cov.merge(&l.cov);
            total += l.n;
            for fl in l.fails {
                kept += 1;
                rep.add_failure(fl);
            }
        }
        if total > kept {
            rep.add_failure_count(&format!("P32E2::{}", f.name), total - kept);
        }
        rep.add_subspace(
            &format!("P32E2::{} (NaR / domain class)", f.name),
            cov,
            false,
            "hostile inputs whose required class is known: NaR operands, arguments outside the real domain; for powf all pairs (NaR exactly where x^y is not real, otherwise the sign of x^y)",
        );
    }
}
