//! C19: sampling from the Standard distribution yields real posits in [0, 1).
//! (a) steered streams through the registry ops `*::sample_steered*` (generic sweep,
//!     replayable), (b) long seeded streams with a bitmap of the distinct outputs observed.

use crate::json::J;
use crate::pt::PT;
use crate::rng::Rng;
use crate::rt::{self, Cov, Ctx, Failure, Report};
use crate::steer::Stream;
use crate::val::Val;
use rand::Rng as _;
use softposit::{P16E1, P32E2, P8E0};
use std::cmp::Ordering;
use std::sync::atomic::{AtomicU64, Ordering as AO};

/// the monitor predicate, on the exact value: real, 0 <= p < 1
pub fn in_unit_interval(f: crate::val::Fmt, bits: u64) -> bool {
    let v = Val::decode(f, bits);
    if v.is_nar() {
        return false;
    }
    let one = Val::from_i128(1);
    v.cmp(&Val::Zero) != Ordering::Less && v.cmp(&one) == Ordering::Less
}

fn stream_for<T: PT>(ctx: &Ctx, rep: &mut Report, draws: u64)
where
    rand::distributions::Standard: rand::distributions::Distribution<T>,
{
    let nshards = 256u64;
    let per = draws / nshards;
    let nbits = if T::F.n <= 16 { 1usize << T::F.n } else { 1usize << 26 };
    let seen: Vec<AtomicU64> = (0..nbits / 64).map(|_| AtomicU64::new(0)).collect();
    let opname = format!("{}::sample(seeded stream)", T::NAME);
    struct L {
        cov: Cov,
        fails: Vec<Failure>,
        n: u64,
    }
    let seed = ctx.seed;
    let locals = rt::par_shards(
        ctx.threads,
        nshards,
        || L { cov: Cov::default(), fails: vec![], n: 0 },
        |shard, l: &mut L| {
            let slot = rt::my_slot();
            let mut rng = Stream(Rng::new(seed ^ 0xc19, shard));
            for i in 0..per {
                rt::enter(slot, usize::MAX - 6, shard, i, 0);
                let r = rt::guarded(|| rng.gen::<T>().tb());
                rt::leave(slot);
                l.cov.evaluations += 1;
                match r {
                    Ok(bits) => {
                        let ok = in_unit_interval(T::F, bits);
                        if !ok {
                            l.n += 1;
                            l.cov.failures += 1;
                            if l.fails.len() < 8 {
                                l.fails.push(Failure {
                                    op: format!("{}::sample(seeded stream)", T::NAME),
                                    kind: "mismatch".into(),
                                    inputs: vec![seed, shard, i],
                                    got: format!("0x{:x}", bits),
                                    want: "a real posit p with 0 <= p < 1".into(),
                                    note: format!("draw #{} of stream (seed {}, shard {})", i, seed, shard),
                                });
                            }
                        }
                        let idx = if T::F.n <= 16 { bits as usize } else { (crate::rng::mix64(bits) as usize) & (nbits - 1) };
                        let w = &seen[idx / 64];
                        let b = 1u64 << (idx % 64);
                        if w.load(AO::Relaxed) & b == 0 && w.fetch_or(b, AO::Relaxed) & b == 0 && bits != 0 {
                            l.cov.nontrivial += 1;
                        }
                        if l.cov.samples.len() < 2 {
                            l.cov.samples.push(J::obj().with("op", J::s(&format!("{}::sample", T::NAME))).with("result", J::hex(bits)));
                        }
                    }
                    Err(msg) => {
                        l.n += 1;
                        l.cov.failures += 1;
                        if l.fails.len() < 8 {
                            l.fails.push(Failure {
                                op: format!("{}::sample(seeded stream)", T::NAME),
                                kind: "panic".into(),
                                inputs: vec![seed, shard, i],
                                got: "PANIC".into(),
                                want: "a sample".into(),
                                note: msg,
                            });
                        }
                    }
                }
            }
        },
    )
    .unwrap_or_else(|_| unreachable!());
    let mut cov = Cov::default();
    for l in locals {
        cov.merge(&l.cov);
        let kept = l.fails.len() as u64;
        for f in l.fails {
            rep.add_failure(f);
        }
        if l.n > kept {
            rep.add_failure_count(&opname, l.n - kept);
        }
    }
    rep.add_subspace(
        &opname,
        cov,
        false,
        &format!(
            "{} draws from 256 seeded xoshiro streams; nontrivial = distinct non-zero sample patterns observed ({})",
            per * nshards,
            if T::F.n <= 16 { "exact bitmap" } else { "2^26-bit hash sketch, lower bound" }
        ),
    );
}

pub fn run(ctx: &Ctx, reg: &crate::ops::Registry, rep: &mut Report) {
    use crate::sweep::{Mode, Plan};
    // harness self-check: the steering really makes gen_range return every value of its range
    {
        use crate::ops_misc::steer_word;
        use crate::steer::Steered;
        let mut ok = 0u64;
        for (log2, salt, lo) in [(6u32, 8u64, 0u32), (18, 16, 0), (2, 33, 0)] {
            for x in 0..(1u64 << log2) {
                let mut r = Steered::new(&[steer_word(x, log2, salt)], x);
                let got: u32 = if log2 == 6 {
                    r.gen_range(0_u8..0x40) as u32
                } else {
                    r.gen_range(lo..(1u32 << log2))
                };
                if got as u64 != x || r.drawn != 1 {
                    rep.harness_errors.push(format!("steering self-check failed: range 2^{} x={} got {}", log2, x, got));
                    return;
                }
                ok += 1;
            }
        }
        let mut rr = Rng::new(ctx.seed, 77);
        for _ in 0..100_000 {
            let x = rr.below(1 << 27);
            let mut r = Steered::new(&[steer_word(x, 27, 32)], x);
            let got = r.gen_range(0x_4000_0000_u32..0x_4800_0000);
            if (got - 0x4000_0000) as u64 != x || r.drawn != 1 {
                rep.harness_errors.push(format!("steering self-check failed: P32 range x={} got {}", x, got));
                return;
            }
            ok += 1;
        }
        rep.extra.set("steering_selfcheck_gen_range_values_confirmed", J::u(ok));
    }
    // (a) steered: every value of every gen_range the implementations call
    let mut plans = Vec::new();
    for (i, op) in reg.for_prop("C19") {
        let mode = if op.name == "P32E2::sample_steered" && ctx.quick() {
            // 2^29 (draw, low-bits) combinations: a seed-rotated 1/32 in quick
            Mode::Strided { stride: 32, offset: ctx.seed }
        } else {
            Mode::Exhaustive
        };
        plans.push(Plan { op: i, mode, name: op.name.clone() });
    }
    super::run_plans(ctx, reg, plans, rep);
    // (b) seeded streams
    let draws = ctx.pick(20_000_000, 2_000_000_000);
    stream_for::<P8E0>(ctx, rep, draws / 4);
    stream_for::<P16E1>(ctx, rep, draws);
    stream_for::<P32E2>(ctx, rep, draws);
}
