//! C18: polynomial evaluation equals its fused-dot-product definition.
//!
//! Oracle: the powers x^2, x^3 = x^2*x, x^4 = x^2*x^2 are the individually rounded posit
//! products (computed by the oracle's own rounded multiplication); every quire stage is one
//! exact sum followed by one rounding; poly5..18 and poly3a/poly4a replay the documented
//! staging, feeding each stage's rounded result to the next stage as its leading coefficient.

use crate::gen;
use crate::json::J;
use crate::pt::PT;
use crate::rng::{mix64, Rng};
use crate::rt::{self, Cov, Ctx, Failure, Report, Sketch};
use crate::val::Val;
use softposit::{AssociatedQuire, Polynom, P16E1, P32E2, P8E0};
use std::convert::TryInto;
use std::ops::AddAssign;

pub const POLY_3A: u32 = 19;
pub const POLY_4A: u32 = 20;

pub fn poly_name(which: u32) -> String {
    match which {
        POLY_3A => "poly3a".into(),
        POLY_4A => "poly4a".into(),
        n => format!("poly{}", n),
    }
}
/// number of coefficients
pub fn ncoef(which: u32) -> usize {
    match which {
        POLY_3A => 4,
        POLY_4A => 5,
        n => n as usize + 1,
    }
}

/// call the real polyN for a coefficient slice of the right length
fn call_poly<P, T>(x: P, c: &[T], which: u32) -> P
where
    P: Polynom<T> + AssociatedQuire<P>,
    <P as AssociatedQuire<P>>::Q: AddAssign<(P, T)> + AddAssign<(P, P)>,
    T: Copy + core::fmt::Debug,
{
    macro_rules! go {
        ($m:ident, $n:expr) => {{
            let a: [T; $n] = c.try_into().expect("coefficient count");
            x.$m(&a)
        }};
    }
    match which {
        1 => go!(poly1, 2),
        2 => go!(poly2, 3),
        3 => go!(poly3, 4),
        4 => go!(poly4, 5),
        5 => go!(poly5, 6),
        6 => go!(poly6, 7),
        7 => go!(poly7, 8),
        8 => go!(poly8, 9),
        9 => go!(poly9, 10),
        10 => go!(poly10, 11),
        11 => go!(poly11, 12),
        12 => go!(poly12, 13),
        13 => go!(poly13, 14),
        14 => go!(poly14, 15),
        15 => go!(poly15, 16),
        16 => go!(poly16, 17),
        17 => go!(poly17, 18),
        18 => go!(poly18, 19),
        POLY_3A => go!(poly3a, 4),
        POLY_4A => go!(poly4a, 5),
        _ => panic!("no such poly"),
    }
}

// ------------------------------------------------------------------ oracle
struct Powers {
    x: Val,
    x2: Val,
    x3: Val,
    x4: Val,
    f: crate::val::Fmt,
}

impl Powers {
    fn new(f: crate::val::Fmt, xb: u64) -> Powers {
        let x = Val::decode(f, xb);
        let r = |v: &Val| Val::decode(f, v.encode_bits(f));
        let x2 = r(&x.mul(&x));
        let x3 = r(&x2.mul(&x));
        let x4 = r(&x2.mul(&x2));
        Powers { x, x2, x3, x4, f }
    }
    /// one quire stage: R( b[last] + x b[last-1] + x^2 b[last-2] ... + x^k head ), k = b.len()
    fn stage(&self, head: &Val, b: &[Val]) -> Val {
        let k = b.len();
        let pw = [&self.x, &self.x2, &self.x3, &self.x4];
        let mut s = b[k - 1].clone(); // times one
        for i in 1..k {
            s = nar_add(&s, &pw[i - 1].mul(&b[k - 1 - i]));
        }
        s = nar_add(&s, &pw[k - 1].mul(head));
        Val::decode(self.f, s.encode_bits(self.f))
    }
    /// polyNk(head; c) for N = c.len() + ... (N = number of coefficients after the head)
    fn staged(&self, n: usize, head: &Val, c: &[Val]) -> Val {
        debug_assert_eq!(c.len(), n);
        match n {
            1..=4 => self.stage(head, c),
            5 => {
                let p = self.stage(head, &c[..2]);
                self.stage(&p, &c[2..])
            }
            6 | 7 => {
                let p = self.stage(head, &c[..3]);
                self.stage(&p, &c[3..])
            }
            8 => {
                let p = self.stage(head, &c[..4]);
                self.stage(&p, &c[4..])
            }
            _ => {
                // poly9k .. poly18k: polyNk = poly4k( poly(N-4)k(head; c[..N-4]); c[N-4..] )
                let p = self.staged(n - 4, head, &c[..n - 4]);
                self.stage(&p, &c[n - 4..])
            }
        }
    }
    fn eval(&self, which: u32, c: &[Val]) -> Val {
        match which {
            POLY_3A => {
                let p = self.stage(&c[0], &c[1..2]);
                self.stage(&p, &c[2..4])
            }
            POLY_4A => {
                let p = self.stage(&c[0], &c[1..3]);
                self.stage(&p, &c[3..5])
            }
            n => self.staged(n as usize, &c[0], &c[1..]),
        }
    }
}

fn nar_add(a: &Val, b: &Val) -> Val {
    if a.is_nar() || b.is_nar() {
        Val::NaR
    } else {
        a.add(b)
    }
}

/// exact value of a split coefficient (sum of its parts; NaR if any part is NaR)
fn coef_val(f: crate::val::Fmt, parts: &[u64]) -> Val {
    let mut s = Val::Zero;
    for &p in parts {
        s = nar_add(&s, &Val::decode(f, p));
    }
    s
}

// ------------------------------------------------------------------ the monitor
/// run one case on the real code: `split` = 0 for plain coefficients, k for [P; k]
fn run_real<P>(x: u64, which: u32, split: usize, words: &[u64]) -> u64
where
    P: PT
        + Polynom<P>
        + Polynom<[P; 1]>
        + Polynom<[P; 2]>
        + Polynom<[P; 3]>
        + Polynom<[P; 4]>
        + AssociatedQuire<P>,
    <P as AssociatedQuire<P>>::Q: AddAssign<(P, P)>
        + AddAssign<(P, [P; 1])>
        + AddAssign<(P, [P; 2])>
        + AddAssign<(P, [P; 3])>
        + AddAssign<(P, [P; 4])>,
{
    let xp = P::fb(x);
    match split {
        0 => {
            let c: Vec<P> = words.iter().map(|&w| P::fb(w)).collect();
            call_poly::<P, P>(xp, &c, which).tb()
        }
        1 => {
            let c: Vec<[P; 1]> = words.chunks(1).map(|w| [P::fb(w[0])]).collect();
            call_poly::<P, [P; 1]>(xp, &c, which).tb()
        }
        2 => {
            let c: Vec<[P; 2]> = words.chunks(2).map(|w| [P::fb(w[0]), P::fb(w[1])]).collect();
            call_poly::<P, [P; 2]>(xp, &c, which).tb()
        }
        3 => {
            let c: Vec<[P; 3]> = words.chunks(3).map(|w| [P::fb(w[0]), P::fb(w[1]), P::fb(w[2])]).collect();
            call_poly::<P, [P; 3]>(xp, &c, which).tb()
        }
        _ => {
            let c: Vec<[P; 4]> = words
                .chunks(4)
                .map(|w| [P::fb(w[0]), P::fb(w[1]), P::fb(w[2]), P::fb(w[3])])
                .collect();
            call_poly::<P, [P; 4]>(xp, &c, which).tb()
        }
    }
}

fn want<P: PT>(x: u64, which: u32, split: usize, words: &[u64]) -> u64 {
    let f = P::F;
    let k = split.max(1);
    let c: Vec<Val> = words.chunks(k).map(|w| coef_val(f, w)).collect();
    let pw = Powers::new(f, x);
    if pw.x.is_nar() {
        return f.nar();
    }
    pw.eval(which, &c).encode_bits(f)
}

fn gen_case<P: PT>(r: &mut Rng, which: u32, split: usize) -> (u64, Vec<u64>) {
    let f = P::F;
    let n = ncoef(which);
    let k = split.max(1);
    if n >= 2 && r.chance(1, 8) {
        // constructed rounding trap (gen::fused_trap): all coefficients zero except the last two,
        // so the value is c[n-2]*x + c[n-1] = rounding boundary +- a residue in the far bits of
        // the quire; every earlier stage yields exactly zero
        if let Some([a, b, c]) = gen::fused_trap(r, f) {
            let mut words = vec![0u64; n * k];
            words[(n - 2) * k] = b;
            words[(n - 1) * k] = c;
            return (a, words);
        }
    }
    let x = match r.below(8) {
        0..=4 => gen::pat(r, f),
        5 => {
            // |x| around 1: powers stay in range, cancellation between terms is likely
            let one = 1u64 << (f.n - 2);
            let v = one.wrapping_add(r.range(-(1 << (f.n / 2)), 1 << (f.n / 2)) as u64) & f.maxpos();
            if r.chance(1, 2) { f.neg(v) } else { v }
        }
        _ => r.next() & f.mask(),
    };
    let mut words = Vec::with_capacity(n * k);
    let style = r.below(6);
    let mut prev = 0u64;
    for i in 0..n {
        let hi = match style {
            0 => gen::pat(r, f),
            1 => r.next() & f.mask(),
            2 => {
                // alternating signs of similar magnitude: cancelling sums
                if i == 0 { prev = gen::pat(r, f); prev } else {
                    prev = f.neg(prev).wrapping_add(r.range(-3, 3) as u64) & f.mask();
                    prev
                }
            }
            3 => {
                // many zeros, a few extremes
                match r.below(6) { 0 => 1, 1 => f.maxpos(), 2 => f.neg(1), 3 => gen::pat(r, f), _ => 0 }
            }
            4 => gen::partner(r, f, x),
            _ => {
                // coefficients of decreasing magnitude (like real minimax polynomials, reversed order)
                let v = Val::pow2(-(i as i64) * 2 + r.range(-1, 1)).encode_bits(f);
                let v = v | (r.next() & ((1u64 << (f.n / 2)) - 1));
                if r.chance(1, 2) { f.neg(v & f.maxpos()) } else { v & f.maxpos() }
            }
        };
        // NaR coefficients only rarely (they make the whole result NaR)
        let hi = if hi == f.nar() && !r.chance(1, 16) { 1 } else { hi };
        words.push(hi);
        for j in 1..k {
            // low parts: a correction far below the leading part
            let hv = Val::decode(f, hi);
            let lo = if hv.is_zero() || hv.is_nar() || r.chance(1, 4) {
                if r.chance(1, 2) { 0 } else { gen::pat(r, f) }
            } else {
                let sc = hv.scale() - (f.n as i64 - 4) * j as i64 + r.range(-2, 2);
                let v = Val::pow2(sc).encode_bits(f) | (r.next() & 0xf);
                if r.chance(1, 2) { f.neg(v & f.maxpos()) } else { v & f.maxpos() }
            };
            let lo = if lo == f.nar() { 0 } else { lo };
            words.push(lo);
        }
    }
    (x, words)
}

#[derive(Default)]
struct L {
    cov: Cov,
    fails: Vec<Failure>,
    n: u64,
    per_which: [u64; 21],
    nar_results: u64,
}

fn run_type<P>(ctx: &Ctx, rep: &mut Report, per_cell: u64)
where
    P: PT
        + Polynom<P>
        + Polynom<[P; 1]>
        + Polynom<[P; 2]>
        + Polynom<[P; 3]>
        + Polynom<[P; 4]>
        + AssociatedQuire<P>,
    <P as AssociatedQuire<P>>::Q: AddAssign<(P, P)>
        + AddAssign<(P, [P; 1])>
        + AddAssign<(P, [P; 2])>
        + AddAssign<(P, [P; 3])>
        + AddAssign<(P, [P; 4])>,
{
    // cells: 20 polynomials x 5 coefficient kinds
    let cells: Vec<(u32, usize)> = (1..=20u32).flat_map(|w| (0..=4usize).map(move |s| (w, s))).collect();
    let chunk = 2048u64;
    let shards_per_cell = (per_cell + chunk - 1) / chunk;
    let nshards = cells.len() as u64 * shards_per_cell;
    let sketch = Sketch::new(26);
    let seed = mix64(ctx.seed ^ crate::sweep::hash_str(P::NAME) ^ 0xc18);
    let locals = rt::par_shards(ctx.threads, nshards, L::default, |shard, l: &mut L| {
        let slot = rt::my_slot();
        let (which, split) = cells[(shard / shards_per_cell) as usize];
        let mut r = Rng::new(seed, shard);
        for _ in 0..chunk {
            let (x, words) = gen_case::<P>(&mut r, which, split);
            {
                let mut w = vec![x];
                w.extend_from_slice(&words);
                rt::doing_set(
                    &format!("{}::{}{}", P::NAME, poly_name(which), if split > 0 { format!("[{}]", split) } else { String::new() }),
                    &w,
                );
            }
            rt::enter(slot, usize::MAX - 7, x, which as u64, split as u64);
            let got = rt::guarded(|| run_real::<P>(x, which, split, &words));
            rt::leave(slot);
            l.cov.evaluations += 1;
            l.per_which[which as usize] += 1;
            let w = want::<P>(x, which, split, &words);
            let opname = format!("{}::{}{}", P::NAME, poly_name(which), if split > 0 { format!("[{}]", split) } else { String::new() });
            let mut inputs = vec![x];
            inputs.extend_from_slice(&words);
            match got {
                Ok(g) if g == w => {
                    if w == P::F.nar() {
                        l.nar_results += 1;
                    } else if w != 0 {
                        let h = inputs.iter().fold(which as u64 * 8 + split as u64, |h, &v| mix64(h ^ v));
                        if sketch.insert(h) {
                            l.cov.nontrivial += 1;
                        }
                    }
                    if l.cov.samples.len() < 2 {
                        l.cov.samples.push(
                            J::obj()
                                .with("op", J::s(&opname))
                                .with("x", J::hex(x))
                                .with("coefficients", J::arr(words.iter().map(|&v| J::hex(v))))
                                .with("result", J::hex(g)),
                        );
                    }
                }
                Ok(g) => {
                    l.n += 1;
                    l.cov.failures += 1;
                    if l.fails.len() < 6 {
                        l.fails.push(Failure {
                            op: opname,
                            kind: "mismatch".into(),
                            inputs,
                            got: format!("0x{:x}", g),
                            want: format!("0x{:x}", w),
                            note: "inputs = x followed by the coefficients (highest degree first; split coefficients part by part)".into(),
                        });
                    }
                }
                Err(m) => {
                    l.n += 1;
                    l.cov.failures += 1;
                    if l.fails.len() < 6 {
                        l.fails.push(Failure {
                            op: opname,
                            kind: "panic".into(),
                            inputs,
                            got: "PANIC".into(),
                            want: format!("0x{:x}", w),
                            note: m,
                        });
                    }
                }
            }
        }
    })
    .unwrap_or_else(|_| unreachable!());
    let mut cov = Cov::default();
    let mut per = [0u64; 21];
    let mut nar = 0;
    for l in locals {
        cov.merge(&l.cov);
        for i in 0..21 {
            per[i] += l.per_which[i];
        }
        nar += l.nar_results;
        let kept = l.fails.len() as u64;
        let first = l.fails.first().map(|f| f.op.clone());
        for f in l.fails {
            rep.add_failure(f);
        }
        if l.n > kept {
            rep.add_failure_count(&first.unwrap_or_else(|| format!("{}::poly", P::NAME)), l.n - kept);
        }
    }
    let mut j = J::obj();
    for w in 1..=20u32 {
        j.set(&poly_name(w), J::u(per[w as usize]));
    }
    if let J::Obj(m) = &mut rep.extra {
        m.insert(
            P::NAME.to_string(),
            J::obj().with("evaluations_per_polynomial", j).with("nar_results", J::u(nar)),
        );
    }
    rep.add_subspace(
        &format!("{}::poly1..18,3a,4a x {{P,[P;1..4]}}", P::NAME),
        cov,
        false,
        &format!("{} hostile (x, coefficient array) cases per (polynomial, coefficient kind) cell, 100 cells; distinct by 2^26-bit hash sketch, non-trivial = result neither 0 nor NaR", shards_per_cell * chunk),
    );
}

pub fn run(ctx: &Ctx, rep: &mut Report) {
    let per = ctx.pick(1 << 16, 1 << 20);
    run_type::<P8E0>(ctx, rep, per);
    run_type::<P16E1>(ctx, rep, per);
    run_type::<P32E2>(ctx, rep, per);
}

/// replay: name like "P16E1::poly7" or "P32E2::poly3a[2]"
pub fn replay(name: &str, words: &[u64]) -> Option<bool> {
    let (ty, rest) = name.split_once("::")?;
    if !rest.starts_with("poly") {
        return None;
    }
    let (pn, split) = match rest.split_once('[') {
        Some((p, s)) => (p, s.trim_end_matches(']').parse::<usize>().ok()?),
        None => (rest, 0),
    };
    let which = match pn {
        "poly3a" => POLY_3A,
        "poly4a" => POLY_4A,
        p => p.trim_start_matches("poly").parse::<u32>().ok()?,
    };
    fn go<P>(which: u32, split: usize, words: &[u64]) -> bool
    where
        P: PT + Polynom<P> + Polynom<[P; 1]> + Polynom<[P; 2]> + Polynom<[P; 3]> + Polynom<[P; 4]> + AssociatedQuire<P>,
        <P as AssociatedQuire<P>>::Q: AddAssign<(P, P)> + AddAssign<(P, [P; 1])> + AddAssign<(P, [P; 2])> + AddAssign<(P, [P; 3])> + AddAssign<(P, [P; 4])>,
    {
        let x = words[0];
        let c = &words[1..];
        let got = rt::guarded(|| run_real::<P>(x, which, split, c));
        let w = want::<P>(x, which, split, c);
        match &got {
            Ok(g) => println!("REPLAY got=0x{:x}", g),
            Err(m) => println!("REPLAY got=PANIC {}", m),
        }
        println!("REPLAY want=0x{:x}", w);
        !matches!(got, Ok(g) if g == w)
    }
    Some(match ty {
        "P8E0" => go::<P8E0>(which, split, words),
        "P16E1" => go::<P16E1>(which, split, words),
        _ => go::<P32E2>(which, split, words),
    })
}
