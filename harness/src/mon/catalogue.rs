//! C16: the op catalogue. Every registered, non-stub operation is run on the same deterministic
//! input list in every build profile; outputs are folded into per-chunk digests that the driver
//! compares across profiles. Panics are recorded with their inputs and message; a call that
//! does not return is caught by the heartbeat watchdog.

use crate::gen::{self, Kind};
use crate::json::J;
use crate::ops::{Op, Registry};
use crate::rng::{mix64, Rng};
use crate::rt;
use crate::sweep::hash_str;

pub const CHUNK: usize = 256;
pub const PANIC_WORD: u64 = 0xfa11_ed00_dead_beef;

fn special(k: Kind, v: u64) -> bool {
    match k {
        Kind::Pat(f) => v == 0 || v == f.nar(),
        Kind::F32(_) => {
            let x = f32::from_bits(v as u32);
            x == 0.0 || !x.is_finite()
        }
        Kind::F64(_) => {
            let x = f64::from_bits(v);
            x == 0.0 || !x.is_finite()
        }
        Kind::Int { .. } => v == 0,
        Kind::Small(_) => false,
    }
}

fn extremes(k: Kind) -> Vec<u64> {
    match k {
        Kind::Pat(f) => {
            let one = 1u64 << (f.n - 2);
            let mut v = vec![0, f.nar(), 1, f.maxpos(), f.neg(1), f.neg(f.maxpos()), one, f.neg(one)];
            if f.n > 2 {
                v.push(f.maxpos() - 1);
                v.push(2);
            }
            v.iter().map(|x| x & f.mask()).collect()
        }
        Kind::F32(_) => vec![0, 0x8000_0000, 0x7f80_0000, 0xff80_0000, 0x7fc0_0000, 1, 0x7f7f_ffff, 0x3f80_0000, 0xbf80_0000],
        Kind::F64(_) => vec![
            0,
            1 << 63,
            0x7ff0_0000_0000_0000,
            0xfff0_0000_0000_0000,
            0x7ff8_0000_0000_0000,
            1,
            0x7fef_ffff_ffff_ffff,
            0x3ff0_0000_0000_0000,
            0xbff0_0000_0000_0000,
        ],
        Kind::Int { bits, .. } => {
            let m = if bits == 64 { u64::MAX } else { (1u64 << bits) - 1 };
            vec![0, 1, m, m >> 1, (m >> 1) + 1, (m >> 1) + 2, 2]
        }
        Kind::Small(n) => vec![0, n - 1, n / 2],
    }
}

/// the deterministic input list of one op
pub fn inputs_for(op: &Op, seed: u64, count: u64) -> Vec<[u64; 3]> {
    let ar = op.arity();
    let mut v: Vec<[u64; 3]> = Vec::new();
    if ar == 0 {
        v.push([0; 3]);
        return v;
    }
    // small spaces: everything
    let mut total: u128 = 1;
    let mut enumerable = true;
    for k in &op.ins {
        match k.cardinality() {
            Some(c) => total *= c as u128,
            None => enumerable = false,
        }
    }
    if enumerable && total <= count as u128 {
        let card: Vec<u64> = op.ins.iter().map(|k| k.cardinality().unwrap()).collect();
        for idx in 0..total {
            let mut t = [0u64; 3];
            let mut r = idx;
            for i in (0..ar).rev() {
                t[i] = (r % card[i] as u128) as u64;
                r /= card[i] as u128;
            }
            v.push(t);
        }
        return v;
    }
    // extremes: full cross product for arity <= 2, a diagonal + random mix for arity 3
    let ex: Vec<Vec<u64>> = op.ins.iter().map(|k| extremes(*k)).collect();
    match ar {
        1 => {
            for &a in &ex[0] {
                v.push([a, 0, 0]);
            }
        }
        2 => {
            for &a in &ex[0] {
                for &b in &ex[1] {
                    v.push([a, b, 0]);
                }
            }
        }
        _ => {
            for &a in &ex[0] {
                for &b in &ex[1] {
                    for &c in &ex[2] {
                        v.push([a, b, c]);
                    }
                }
            }
        }
    }
    // tiny budgets (Miri): keep a stride-sampled subset of the extremes
    if (v.len() as u64) > count / 2 && count < 256 {
        let keep = (count / 2).max(1) as usize;
        let stride = (v.len() + keep - 1) / keep;
        v = v.into_iter().step_by(stride.max(1)).collect();
    }
    let mut rng = Rng::new(seed ^ mix64(hash_str(&op.name)), 0xca7);
    let mut t = [0u64; 3];
    while (v.len() as u64) < count {
        gen::tuple(&mut rng, &op.ins, &mut t);
        v.push(t);
    }
    v
}

struct OpResult {
    name: String,
    n: u64,
    distinct_nontrivial: u64,
    digests: Vec<u64>,
    panic_count: u64,
    panics: Vec<([u64; 3], String)>,
}

pub fn run(reg: &Registry, seed: u64, count: u64, threads: usize, out_path: &str, only: Option<&str>) {
    let idx: Vec<usize> = reg
        .ops
        .iter()
        .enumerate()
        .filter(|(_, o)| !o.stub && !o.skip_catalogue && only.map(|s| s.split(',').any(|t| o.name.contains(t))).unwrap_or(true))
        .map(|(i, _)| i)
        .collect();
    let results = rt::par_shards(
        threads,
        idx.len() as u64,
        Vec::<OpResult>::new,
        |shard, l: &mut Vec<OpResult>| {
            let slot = rt::my_slot();
            let opi = idx[shard as usize];
            let op = &reg.ops[opi];
            let ins = inputs_for(op, seed, count);
            // distinct input tuples with at least one operand that is not a special value
            let mut uniq: Vec<[u64; 3]> = ins
                .iter()
                .filter(|t| (0..op.arity()).any(|j| !special(op.ins[j], t[j])))
                .cloned()
                .collect();
            uniq.sort_unstable();
            uniq.dedup();
            let mut r = OpResult {
                name: op.name.clone(),
                n: ins.len() as u64,
                distinct_nontrivial: uniq.len() as u64,
                digests: Vec::new(),
                panic_count: 0,
                panics: Vec::new(),
            };
            let mut h = 0u64;
            for (i, t) in ins.iter().enumerate() {
                rt::enter(slot, opi, t[0], t[1], t[2]);
                let o = rt::guarded(|| (op.run)(t[0], t[1], t[2]));
                rt::leave(slot);
                let w = match o {
                    Ok(w) => w,
                    Err(m) => {
                        r.panic_count += 1;
                        if r.panics.len() < 4 {
                            r.panics.push((*t, m));
                        }
                        PANIC_WORD
                    }
                };
                h = mix64(h ^ w ^ (i as u64).rotate_left(32));
                if (i + 1) % CHUNK == 0 {
                    r.digests.push(h);
                    h = 0;
                }
            }
            if ins.len() % CHUNK != 0 {
                r.digests.push(h);
            }
            l.push(r);
        },
    )
    .unwrap_or_else(|_| unreachable!());
    let mut ops = J::obj();
    let mut total = 0u64;
    let mut nops = 0u64;
    for l in results {
        for r in l {
            total += r.n;
            nops += 1;
            let ar = reg.ops[reg.find(&r.name).unwrap()].arity();
            ops.set(
                &r.name,
                J::obj()
                    .with("n", J::u(r.n))
                    .with("distinct_nontrivial", J::u(r.distinct_nontrivial))
                    .with("digests", J::arr(r.digests.iter().map(|&d| J::hex(d))))
                    .with("panic_count", J::u(r.panic_count))
                    .with(
                        "panics",
                        J::arr(r.panics.iter().map(|(t, m)| {
                            J::obj()
                                .with("inputs", J::arr(t.iter().take(ar).map(|&v| J::hex(v))))
                                .with("msg", J::s(m))
                        })),
                    ),
            );
        }
    }
    let stubs: Vec<J> = reg.ops.iter().filter(|o| o.stub).map(|o| J::s(&o.name)).collect();
    let j = J::obj()
        .with("ops", ops)
        .with("ops_run", J::u(nops))
        .with("total_cases", J::u(total))
        .with("stub_ops_excluded", J::Arr(stubs))
        .with("overflow_checks", J::Bool(cfg!(debug_assertions)))
        .with("seed", J::u(seed))
        .with("count_per_op", J::u(count));
    std::fs::write(out_path, j.to_string()).expect("write catalogue");
    println!("catalogue ops={} cases={} debug_assertions={}", nops, total, cfg!(debug_assertions));
}

/// print every case of one chunk of one op (used to name the input behind a digest mismatch)
pub fn dump(reg: &Registry, seed: u64, count: u64, name: &str, chunk: usize) {
    let Some(i) = reg.find(name) else {
        println!("DUMP unknown op");
        return;
    };
    let op = &reg.ops[i];
    let ins = inputs_for(op, seed, count);
    let lo = chunk * CHUNK;
    let hi = (lo + CHUNK).min(ins.len());
    for (k, t) in ins[lo..hi].iter().enumerate() {
        let o = rt::guarded(|| (op.run)(t[0], t[1], t[2]));
        match o {
            Ok(w) => println!("DUMP {} {:x} {:x} {:x} -> {:x}", lo + k, t[0], t[1], t[2], w),
            Err(m) => println!("DUMP {} {:x} {:x} {:x} -> PANIC {}", lo + k, t[0], t[1], t[2], m),
        }
    }
}
