//! History monitor for the three quires (C04) and quire state operations (C12).
//!
//! C04: every `+=`/`-=` (all spellings) is logged as an event; a shadow exact accumulator is
//! advanced in lock-step and after *every* event the quire's bit image, is_zero, is_nar and
//! to_posit are compared with it. Order independence is checked differentially by replaying a
//! random permutation of the same terms on a second quire.
//! C12: neg / clear / from_bits(to_bits) / into_two_posits / into_three_posits are judged
//! relative to the *actual* state the quire is in (decoded from its bit image).

use crate::gen;
use crate::json::J;
use crate::pt::{PT, QT};
use crate::rng::{mix64, Rng};
use crate::rt::{self, Cov, Ctx, Failure, Report, Sketch};
use crate::val::Val;
use softposit::{Q16E1, Q32E2, Q8E0};

#[derive(Clone, Debug)]
pub struct Ev {
    pub kind: u8,
    pub p: Vec<u64>,
}

pub const K_ADD_PROD: u8 = 0;
pub const K_SUB_PROD: u8 = 1;
pub const K_ADD_ONE: u8 = 2;
pub const K_SUB_ONE: u8 = 3;
pub const K_ADD_T2: u8 = 4;
pub const K_SUB_T2: u8 = 5;
pub const K_ADD_T3: u8 = 6;
pub const K_ADD_PAIRS: u8 = 7;
pub const K_SUB_PAIRS: u8 = 8;
pub const K_ADD_ARR: u8 = 9;
pub const K_SUB_ARR: u8 = 10;
pub const K_M_ADD: u8 = 11;
pub const K_M_SUB: u8 = 12;
pub const K_CLEAR: u8 = 13;
pub const K_NEG: u8 = 20;
pub const K_BITS: u8 = 21;
pub const K_TWO: u8 = 22;
pub const K_THREE: u8 = 23;
pub const K_CLEAR12: u8 = 24;
/// pseudo event: the history starts from this bit image (a reachable state, fast-forwarded)
pub const K_STATE: u8 = 30;
const KIND_NAMES: [&str; 31] = [
    "+=(a,b)", "-=(a,b)", "+=a", "-=a", "+=(a,(b,c))", "-=(a,(b,c))", "+=(a,(b,c,d))",
    "+=((a,b),(c,d))", "-=((a,b),(c,d))", "+=(a,[..])", "-=(a,[..])", "add_product", "sub_product",
    "clear", "", "", "", "", "", "", "neg", "from_bits(to_bits)", "into_two_posits",
    "into_three_posits", "clear", "", "", "", "", "", "start from reachable state",
];

/// signed exact terms an accumulate event contributes, in the order the crate applies them
fn terms<P: PT>(e: &Ev) -> Vec<(bool, u64, Option<u64>)> {
    let p = &e.p;
    match e.kind {
        K_ADD_PROD | K_M_ADD => vec![(false, p[0], Some(p[1]))],
        K_SUB_PROD | K_M_SUB => vec![(true, p[0], Some(p[1]))],
        K_ADD_ONE => vec![(false, p[0], None)],
        K_SUB_ONE => vec![(true, p[0], None)],
        K_ADD_T2 => vec![(false, p[0], Some(p[1])), (false, p[0], Some(p[2]))],
        K_SUB_T2 => vec![(true, p[0], Some(p[1])), (true, p[0], Some(p[2]))],
        K_ADD_T3 => vec![
            (false, p[0], Some(p[1])),
            (false, p[0], Some(p[2])),
            (false, p[0], Some(p[3])),
        ],
        K_ADD_PAIRS | K_SUB_PAIRS => {
            let s = e.kind == K_SUB_PAIRS;
            vec![
                (s, p[0], Some(p[2])),
                (s, p[0], Some(p[3])),
                (s, p[1], Some(p[2])),
                (s, p[1], Some(p[3])),
            ]
        }
        K_ADD_ARR | K_SUB_ARR => {
            let s = e.kind == K_SUB_ARR;
            p[1..].iter().map(|&b| (s, p[0], Some(b))).collect()
        }
        _ => vec![],
    }
}

fn term_val<P: PT>(t: &(bool, u64, Option<u64>)) -> Val {
    let a = Val::decode(P::F, t.1);
    let v = match t.2 {
        Some(b) => a.mul(&Val::decode(P::F, b)),
        None => a,
    };
    if t.0 {
        v.neg()
    } else {
        v
    }
}

fn apply<Q: QT>(q: &mut Q, e: &Ev) {
    let f = |i: usize| <Q::P as PT>::fb(e.p[i]);
    match e.kind {
        K_ADD_PROD => q.add_prod(f(0), f(1)),
        K_SUB_PROD => q.sub_prod(f(0), f(1)),
        K_ADD_ONE => q.add_one(f(0)),
        K_SUB_ONE => q.sub_one(f(0)),
        K_ADD_T2 => q.add_t2(f(0), f(1), f(2)),
        K_SUB_T2 => q.sub_t2(f(0), f(1), f(2)),
        K_ADD_T3 => q.add_t3(f(0), f(1), f(2), f(3)),
        K_ADD_PAIRS => q.add_pairs(f(0), f(1), f(2), f(3)),
        K_SUB_PAIRS => q.sub_pairs(f(0), f(1), f(2), f(3)),
        K_ADD_ARR | K_SUB_ARR => {
            let v: Vec<Q::P> = (1..e.p.len()).map(f).collect();
            if e.kind == K_ADD_ARR {
                q.add_arr(f(0), &v)
            } else {
                q.sub_arr(f(0), &v)
            }
        }
        K_M_ADD => q.m_add_product(f(0), f(1)),
        K_M_SUB => q.m_sub_product(f(0), f(1)),
        K_CLEAR | K_CLEAR12 => q.i_clear(),
        K_STATE => *q = Q::from_limbs_le(&e.p),
        K_NEG => q.i_neg(),
        _ => {}
    }
}

pub fn encode_events(evs: &[Ev]) -> Vec<u64> {
    let mut w = Vec::new();
    for e in evs {
        w.push(((e.kind as u64) << 8) | e.p.len() as u64);
        w.extend_from_slice(&e.p);
    }
    w
}
pub fn decode_events(w: &[u64]) -> Vec<Ev> {
    let mut v = Vec::new();
    let mut i = 0;
    while i < w.len() {
        let kind = (w[i] >> 8) as u8;
        let n = (w[i] & 0xff) as usize;
        v.push(Ev {
            kind,
            p: w[i + 1..(i + 1 + n).min(w.len())].to_vec(),
        });
        i += 1 + n;
    }
    v
}

fn hex_limbs(l: &[u64]) -> String {
    let mut s = String::from("0x");
    for x in l.iter().rev() {
        s.push_str(&format!("{:016x}", x));
    }
    s
}

// ------------------------------------------------------------------ generators
/// a posit whose product with `a` has binary scale close to `target`
fn partner_for_scale<P: PT>(r: &mut Rng, a: u64, target: i64) -> u64 {
    let av = Val::decode(P::F, a);
    if av.is_zero() || av.is_nar() {
        return gen::pat(r, P::F);
    }
    let want = target - av.scale();
    let base = Val::pow2(want).encode_bits(P::F);
    // random fraction bits below the leading pattern
    let nb = P::F.n - 1;
    let low = r.below(nb as u64 / 2 + 1) as u32;
    let v = base | (r.next() & ((1u64 << low) - 1));
    let v = v & P::F.maxpos();
    if r.chance(1, 2) {
        P::F.neg(v.max(1))
    } else {
        v.max(1)
    }
}

fn gen_event<Q: QT>(r: &mut Rng, prev: &[Ev], nar_ok: bool) -> Ev {
    let f = <Q::P as PT>::F;
    let frac = Q::FRAC_BITS as i64;
    // sometimes repeat / negate an earlier event (exact cancellation, carries by doubling)
    if !prev.is_empty() && r.chance(1, 6) {
        let e = &prev[r.below(prev.len() as u64) as usize];
        if e.kind <= K_M_SUB {
            let flip = r.chance(1, 2);
            let kind = if !flip {
                e.kind
            } else {
                match e.kind {
                    K_ADD_PROD => K_SUB_PROD,
                    K_SUB_PROD => K_ADD_PROD,
                    K_ADD_ONE => K_SUB_ONE,
                    K_SUB_ONE => K_ADD_ONE,
                    K_ADD_T2 => K_SUB_T2,
                    K_SUB_T2 => K_ADD_T2,
                    K_ADD_PAIRS => K_SUB_PAIRS,
                    K_SUB_PAIRS => K_ADD_PAIRS,
                    K_ADD_ARR => K_SUB_ARR,
                    K_SUB_ARR => K_ADD_ARR,
                    K_M_ADD => K_M_SUB,
                    K_M_SUB => K_M_ADD,
                    k => k,
                }
            };
            let mut p = e.p.clone();
            if r.chance(1, 4) && !p.is_empty() {
                // almost the same operand: leaves a tiny residue in the low limbs
                let i = r.below(p.len() as u64) as usize;
                p[i] = p[i].wrapping_add(r.range(-2, 2) as u64) & f.mask();
            }
            return Ev { kind, p };
        }
    }
    let mut operand = |r: &mut Rng| -> u64 {
        let v = gen::pat(r, f);
        if !nar_ok && v == f.nar() {
            1
        } else {
            v
        }
    };
    let kind = match r.below(32) {
        0..=7 => K_ADD_PROD,
        8..=13 => K_SUB_PROD,
        14..=16 => K_ADD_ONE,
        17..=18 => K_SUB_ONE,
        19 => K_ADD_T2,
        20 => K_SUB_T2,
        21 => K_ADD_T3,
        22 => K_ADD_PAIRS,
        23 => K_SUB_PAIRS,
        24 => K_ADD_ARR,
        25 => K_SUB_ARR,
        26..=27 => K_M_ADD,
        28..=29 => K_M_SUB,
        _ => K_ADD_PROD,
    };
    let np = match kind {
        K_ADD_ONE | K_SUB_ONE => 1,
        K_ADD_PROD | K_SUB_PROD | K_M_ADD | K_M_SUB => 2,
        K_ADD_T2 | K_SUB_T2 => 3,
        K_ADD_T3 | K_ADD_PAIRS | K_SUB_PAIRS => 4,
        _ => 2 + r.below(4) as usize, // a + 1..4 array elements
    };
    let mut p = Vec::with_capacity(np);
    let a = operand(r);
    p.push(a);
    for _ in 1..np {
        let b = if r.chance(1, 2) {
            // aim the product at a chosen bit position of the quire (limb boundaries included)
            let target = if r.chance(1, 2) {
                let total = Q::TOTAL_BITS as i64;
                let limb = r.range(0, total / 64);
                (limb * 64 - frac + r.range(-3, 3)).clamp(-frac, total - frac - 2)
            } else {
                r.range(-frac, frac)
            };
            partner_for_scale::<Q::P>(r, a, target)
        } else {
            operand(r)
        };
        p.push(if !nar_ok && b == f.nar() { 1 } else { b });
    }
    Ev { kind, p }
}

/// A hostile *reachable* quire state. Every bit pattern other than NaR is a multiple of
/// minpos^2 (the quire's least significant bit) inside the range, so some accumulate history
/// starting from a cleared quire reaches it (possibly a very long one: a Q16E1 needs 2^15
/// maxpos*maxpos terms to approach its range limit). Starting a walk there "fast-forwards" such a
/// history; from_bits only copies the limbs.
fn hostile_state<Q: QT>(r: &mut Rng) -> Vec<u64> {
    let nl = ((Q::TOTAL_BITS + 63) / 64) as usize;
    let topbits = (Q::TOTAL_BITS - 1) % 64 + 1; // bits used in the top limb
    let topmask = if topbits == 64 { u64::MAX } else { (1u64 << topbits) - 1 };
    let sign = 1u64 << (topbits - 1);
    let mut l = vec![0u64; nl];
    match r.below(12) {
        8..=11 => {
            // a rounding boundary of the posit format (posit value or midpoint) plus or minus ONE
            // far-away bit: what to_posit / into_*_posits must still see as sticky. The extra
            // bit sits exactly 63 / 64 / 65 places below the leading bit, on a limb boundary,
            // at the very bottom, directly below the tie bit, or anywhere below it.
            let f = <Q::P as PT>::F;
            let frac = Q::FRAC_BITS as i64;
            let lead = r.range(1, Q::TOTAL_BITS as i64 - 3); // index of the leading bit
            let scale = (lead - frac) as i32;
            let w = (crate::gen::avail_width(f, scale).max(1) as i64).min(lead + 1);
            let setbit = |l: &mut Vec<u64>, i: i64| l[(i / 64) as usize] |= 1u64 << (i % 64);
            // kept significand: w bits from `lead` downwards, top bit set
            setbit(&mut l, lead);
            for i in (lead - w + 1)..lead {
                if r.chance(1, 2) {
                    setbit(&mut l, i);
                }
            }
            let tie = lead - w; // position of the tie bit (may be < 0: no room)
            if tie >= 0 && r.chance(2, 3) {
                setbit(&mut l, tie);
            }
            if tie >= 1 {
                let j = match r.below(10) {
                    0..=1 => lead - 64,
                    2 => lead - 63,
                    3 => lead - 65,
                    4 => 0,
                    5 => tie - 1,
                    6 => tie - 2,
                    7 => (r.below(nl as u64) as i64) * 64,
                    8 => (r.below(nl as u64) as i64) * 64 - 1,
                    _ => r.range(0, tie - 1),
                };
                if j >= 0 && j < tie {
                    if r.chance(2, 3) {
                        setbit(&mut l, j);
                    } else {
                        // subtract 2^j: borrow ripples up through the zeros below the tie bit
                        let mut i = j;
                        loop {
                            let (li, bi) = ((i / 64) as usize, i % 64);
                            if l[li] >> bi & 1 == 1 {
                                l[li] &= !(1u64 << bi);
                                break;
                            }
                            l[li] |= 1u64 << bi;
                            i += 1;
                            if i > lead {
                                break;
                            }
                        }
                    }
                }
            }
            if r.chance(1, 2) {
                // negate (two's complement over the whole image)
                let mut carry = 1u128;
                for x in l.iter_mut() {
                    let t = (!*x) as u128 + carry;
                    *x = t as u64;
                    carry = t >> 64;
                }
                l[nl - 1] &= topmask;
            }
        }
        0 => {
            // just below +limit
            for x in l.iter_mut() {
                *x = u64::MAX;
            }
            l[nl - 1] = (sign - 1) & topmask;
            l[0] &= !(r.next() & 0xffff);
        }
        1 => {
            // just above -limit: 100..0 + small positive
            l[nl - 1] = sign;
            l[0] = 1 + r.below(1 << 12);
        }
        2 => {
            // -limit plus something in a random limb
            l[nl - 1] = sign;
            let i = r.below(nl as u64) as usize;
            l[i] |= (r.next() | 1) & if i == nl - 1 { sign - 1 } else { u64::MAX };
        }
        3 => {
            // one limb only
            let i = r.below(nl as u64) as usize;
            l[i] = r.next() & if i == nl - 1 { topmask } else { u64::MAX };
        }
        4 => {
            // small negative: all ones above a random tail
            for x in l.iter_mut() {
                *x = u64::MAX;
            }
            l[nl - 1] = topmask;
            let i = r.below(nl as u64) as usize;
            l[i] = r.next() & if i == nl - 1 { topmask } else { u64::MAX } | if i == nl - 1 { sign } else { 0 };
            for j in 0..i {
                l[j] = if r.chance(1, 2) { 0 } else { r.next() };
            }
        }
        5 => {
            // a limb boundary: 2^(64 i) and 2^(64 i) - 1, both signs
            let i = 1 + r.below((nl - 1).max(1) as u64) as usize;
            if nl > 1 {
                if r.chance(1, 2) {
                    l[i.min(nl - 1)] = 1;
                } else {
                    for j in 0..i.min(nl - 1) {
                        l[j] = u64::MAX;
                    }
                }
            } else {
                l[0] = 1u64 << r.below(topbits as u64 - 1);
            }
        }
        _ => {
            for x in l.iter_mut() {
                *x = r.next();
            }
            l[nl - 1] &= topmask;
        }
    }
    // never the NaR pattern itself
    if l[nl - 1] == sign && l[..nl - 1].iter().all(|&x| x == 0) {
        l[0] = 1;
    }
    l
}

// ------------------------------------------------------------------ per-thread statistics
#[derive(Default)]
struct Stats {
    cov: Cov,
    fails: Vec<Failure>,
    fail_count: u64,
    histories: u64,
    events: u64,
    kind_hist: [u64; 31],
    fast_forwarded: u64,
    len_max: u64,
    limb_occupied: u64,
    limb_carry: u64,
    nar_injections: u64,
    truncated_out_of_range: u64,
    order_checks: u64,
    to_posit_checks: u64,
    c12_checks: [u64; 5],
    samples: Vec<J>,
}

fn fail(st: &mut Stats, op: String, kind: &str, inputs: Vec<u64>, got: String, want: String, note: String) {
    st.fail_count += 1;
    st.cov.failures += 1;
    if (st.fails.len() as u64) < rt::MAX_FAIL_PER_OP {
        st.fails.push(Failure {
            op,
            kind: kind.into(),
            inputs,
            got,
            want,
            note,
        });
    }
}

/// Compare the observable state of `q` with the shadow value. Returns a description of the
/// first disagreement.
fn check_state<Q: QT>(q: &Q, shadow: &Val, st: &mut Stats) -> Option<(String, String, String)> {
    let f = <Q::P as PT>::F;
    let limbs = q.limbs_le();
    if shadow.is_nar() {
        if !q.i_is_nar() {
            return Some(("is_nar".into(), "false".into(), "true".into()));
        }
        let p = q.i_to_posit().tb();
        if p != f.nar() {
            return Some(("to_posit".into(), format!("0x{:x}", p), format!("0x{:x}", f.nar())));
        }
        return None;
    }
    let want = shadow
        .to_fixed(Q::TOTAL_BITS, Q::FRAC_BITS)
        .expect("caller checked range");
    if limbs != want {
        return Some(("bit_image".into(), hex_limbs(&limbs), hex_limbs(&want)));
    }
    if q.i_is_zero() != shadow.is_zero() {
        return Some(("is_zero".into(), format!("{}", q.i_is_zero()), format!("{}", shadow.is_zero())));
    }
    if q.i_is_nar() {
        return Some(("is_nar".into(), "true".into(), "false".into()));
    }
    let (wp, class) = shadow.encode_bits_class(f);
    let p = q.i_to_posit().tb();
    st.to_posit_checks += 1;
    st.cov.class_hist[class as usize] += 1;
    if p != wp {
        return Some(("to_posit".into(), format!("0x{:x}", p), format!("0x{:x}", wp)));
    }
    for (i, l) in limbs.iter().enumerate() {
        if *l != 0 && *l != u64::MAX {
            st.limb_occupied |= 1 << i;
        }
    }
    None
}

/// one C04 history; returns false if a failure was recorded
fn history_c04<Q: QT>(r: &mut Rng, maxlen: u64, st: &mut Stats, sketch: &Sketch) {
    let slot = rt::my_slot();
    let len = 1 + r.below(maxlen);
    let nar_at = if r.chance(1, 8) { Some(r.below(len)) } else { None };
    let mut q = Q::init();
    let mut shadow = Val::Zero;
    let mut evs: Vec<Ev> = Vec::new();
    let mut since_clear: Vec<(bool, u64, Option<u64>)> = Vec::new();
    let mut fast_forwarded = false;
    if r.chance(1, 8) {
        // fast-forward: start from a hostile reachable state (see hostile_state)
        let start = hostile_state::<Q>(r);
        q = Q::from_limbs_le(&start);
        shadow = Val::from_fixed(&start, Q::TOTAL_BITS, Q::FRAC_BITS);
        evs.push(Ev { kind: K_STATE, p: start });
        fast_forwarded = true;
        st.fast_forwarded += 1;
    }
    let mut nar_seen = false;
    let mut nontrivial = false;
    st.histories += 1;
    let opname = format!("{}::accumulate", Q::NAME);
    rt::doing_set(&opname, &encode_events(&evs));
    for i in 0..len {
        let mut e = if r.chance(1, 64) && i > 0 {
            Ev { kind: K_CLEAR, p: vec![] }
        } else {
            gen_event::<Q>(r, &evs, false)
        };
        if nar_at == Some(i) && e.kind != K_CLEAR {
            let j = r.below(e.p.len() as u64) as usize;
            e.p[j] = <Q::P as PT>::F.nar();
            st.nar_injections += 1;
        }
        // ---- shadow
        let before = q.limbs_le();
        let mut expected = shadow.clone();
        if e.kind == K_CLEAR {
            expected = Val::Zero;
        } else {
            let ts = terms::<Q::P>(&e);
            let mut out_of_range = false;
            let mut cur = expected.clone();
            for t in &ts {
                let tv = term_val::<Q::P>(t);
                if cur.is_nar() || tv.is_nar() {
                    cur = Val::NaR;
                    continue;
                }
                cur = cur.add(&tv);
                if cur.to_fixed(Q::TOTAL_BITS, Q::FRAC_BITS).is_none() {
                    out_of_range = true;
                    break;
                }
                if !tv.is_zero() {
                    nontrivial = true;
                }
            }
            if out_of_range {
                // the property is conditional on partial sums staying in range: stop here
                st.truncated_out_of_range += 1;
                break;
            }
            expected = cur;
        }
        // ---- real code
        evs.push(e.clone());
        rt::doing_push(&encode_events(std::slice::from_ref(&e)));
        rt::enter(slot, usize::MAX - 4, evs.len() as u64, e.kind as u64, e.p.first().copied().unwrap_or(0));
        let res = rt::guarded(|| apply(&mut q, &e));
        rt::leave(slot);
        st.events += 1;
        st.cov.evaluations += 1;
        st.kind_hist[e.kind as usize] += 1;
        if let Err(msg) = res {
            fail(st, opname.clone(), "panic", encode_events(&evs), "PANIC".into(), "a state".into(),
                 format!("event #{} {}: {}", i, KIND_NAMES[e.kind as usize], msg));
            return;
        }
        shadow = expected;
        if e.kind == K_CLEAR {
            since_clear.clear();
            nar_seen = false;
            fast_forwarded = false;
        } else {
            let ts = terms::<Q::P>(&e);
            if ts.iter().any(|t| t.1 == <Q::P as PT>::F.nar() || t.2 == Some(<Q::P as PT>::F.nar())) {
                nar_seen = true;
            }
            since_clear.extend(ts);
        }
        // carries: limbs that changed although the term image does not reach them
        if !shadow.is_nar() && e.kind <= K_SUB_ONE {
            let after = q.limbs_le();
            let ts = terms::<Q::P>(&e);
            if let Some(img) = term_val::<Q::P>(&ts[0]).abs().to_fixed(Q::TOTAL_BITS, Q::FRAC_BITS) {
                for j in 0..after.len() {
                    if after[j] != before[j] && img[j] == 0 {
                        st.limb_carry |= 1 << j;
                    }
                }
            }
        }
        // ---- observe after every event
        rt::enter(slot, usize::MAX - 4, evs.len() as u64, 99, 0);
        let chk = rt::guarded(|| check_state(&q, &shadow, st));
        rt::leave(slot);
        match chk {
            Err(msg) => {
                fail(st, opname.clone(), "panic", encode_events(&evs), "PANIC".into(), "an observation".into(),
                     format!("observing after event #{}: {}", i, msg));
                return;
            }
            Ok(Some((what, got, want))) => {
                fail(st, opname.clone(), "mismatch", encode_events(&evs), got, want,
                     format!("{} after event #{} ({}) of the history; exact sum {}", what, i,
                             KIND_NAMES[e.kind as usize], shadow.describe()));
                return;
            }
            Ok(None) => {}
        }
    }
    st.len_max = st.len_max.max(evs.len() as u64);
    // ---- order independence (differential): random permutation of the terms since the last clear
    if !nar_seen && !fast_forwarded && since_clear.len() >= 2 {
        let mut perm = since_clear.clone();
        for i in (1..perm.len()).rev() {
            let j = r.below(i as u64 + 1) as usize;
            perm.swap(i, j);
        }
        // the permuted partial sums must stay in range too
        let mut cur = Val::Zero;
        let mut ok = true;
        for t in &perm {
            cur = cur.add(&term_val::<Q::P>(t));
            if cur.to_fixed(Q::TOTAL_BITS, Q::FRAC_BITS).is_none() {
                ok = false;
                break;
            }
        }
        if ok {
            let mut q2 = Q::init();
            let res = rt::guarded(|| {
                for t in &perm {
                    let a = <Q::P as PT>::fb(t.1);
                    match (t.0, t.2) {
                        (false, Some(b)) => q2.add_prod(a, <Q::P as PT>::fb(b)),
                        (true, Some(b)) => q2.sub_prod(a, <Q::P as PT>::fb(b)),
                        (false, None) => q2.add_one(a),
                        (true, None) => q2.sub_one(a),
                    }
                }
            });
            st.order_checks += 1;
            if res.is_err() || q2.limbs_le() != q.limbs_le() {
                // the original order agreed with the exact sum after every event, so the permuted
                // order is the one that is wrong: record *it* (as single-term events), so that the
                // replay, which re-judges a history in recorded order against the exact sum, fails
                let evs2: Vec<Ev> = perm
                    .iter()
                    .map(|t| match (t.0, t.2) {
                        (false, Some(b)) => Ev { kind: K_ADD_PROD, p: vec![t.1, b] },
                        (true, Some(b)) => Ev { kind: K_SUB_PROD, p: vec![t.1, b] },
                        (false, None) => Ev { kind: K_ADD_ONE, p: vec![t.1] },
                        (true, None) => Ev { kind: K_SUB_ONE, p: vec![t.1] },
                    })
                    .collect();
                fail(st, opname.clone(), "mismatch", encode_events(&evs2), hex_limbs(&q2.limbs_le()),
                     hex_limbs(&q.limbs_le()),
                     format!("order dependence: this order of the same {} terms gives a different bit image \
                              than the generated order (which matched the exact sum)", perm.len()));
                return;
            }
        }
    }
    if nontrivial {
        let h = evs.iter().fold(0x1234u64, |h, e| {
            e.p.iter().fold(mix64(h ^ e.kind as u64), |h, &w| mix64(h ^ w))
        });
        if sketch.insert(h) {
            st.cov.nontrivial += 1;
        }
    }
    if st.samples.len() < 3 && evs.len() <= 5 {
        st.samples.push(history_json::<Q>(&evs, &q));
    }
}

fn history_json<Q: QT>(evs: &[Ev], q: &Q) -> J {
    J::obj()
        .with("quire", J::s(Q::NAME))
        .with(
            "events",
            J::arr(evs.iter().map(|e| {
                J::obj()
                    .with("op", J::s(KIND_NAMES[e.kind as usize]))
                    .with("operands", J::arr(e.p.iter().map(|&v| J::hex(v))))
            })),
        )
        .with("final_image", J::s(&hex_limbs(&q.limbs_le())))
        .with("final_to_posit", J::hex(q.i_to_posit().tb()))
}

/// the C12 judgement of one state operation on the state `q` is in (relative to the exact value
/// decoded from its bit image): None = as required, Some((op, got, want)) otherwise
pub fn check_state_op<Q: QT>(q: &Q, which: u64) -> Option<(String, String, String)> {
    let f = <Q::P as PT>::F;
    let state = q.limbs_le();
    let s = Val::from_fixed(&state, Q::TOTAL_BITS, Q::FRAC_BITS);
    let opname = |n: &str| format!("{}::{}", Q::NAME, n);
    match which {
            0 => {
                // neg: s -> -s exactly (NaR stays NaR, zero stays zero)
                let mut q2 = q.dup();
                q2.i_neg();
                let want = if s.is_nar() {
                    state.clone()
                } else {
                    s.neg().to_fixed(Q::TOTAL_BITS, Q::FRAC_BITS).unwrap()
                };
                let got = q2.limbs_le();
                if got != want {
                    return Some((opname("neg"), hex_limbs(&got), hex_limbs(&want)));
                }
                // involution
                q2.i_neg();
                if q2.limbs_le() != state {
                    return Some((opname("neg"), hex_limbs(&q2.limbs_le()), hex_limbs(&state)));
                }
                None
            }
            1 => {
                let mut q2 = q.dup();
                q2.i_clear();
                let got = q2.limbs_le();
                if got.iter().any(|&l| l != 0) || !q2.i_is_zero() || q2.i_is_nar() || q2.i_to_posit().tb() != 0 {
                    return Some((opname("clear"), hex_limbs(&got), "all-zero image, is_zero, to_posit 0".into()));
                }
                None
            }
            2 => {
                let q2 = q.t_bits_roundtrip();
                let q3 = q.dup(); // inherent from_bits(to_bits) via limbs
                if q2.limbs_le() != state || q3.limbs_le() != state {
                    return Some((opname("from_bits(to_bits)"), hex_limbs(&q2.limbs_le()), hex_limbs(&state)));
                }
                if q3.i_is_zero() != q.i_is_zero() || q3.i_is_nar() != q.i_is_nar() || q3.i_to_posit().tb() != q.i_to_posit().tb() {
                    return Some((opname("from_bits(to_bits)"), "observables differ".into(), "same observables".into()));
                }
                None
            }
            3 => {
                let (p1, p2) = q.dup().i_into_two();
                let (w1, w2) = if s.is_nar() {
                    (f.nar(), f.nar())
                } else {
                    let w1 = s.encode_bits(f);
                    let r1 = s.sub(&Val::decode(f, w1));
                    (w1, r1.encode_bits(f))
                };
                if (p1.tb(), p2.tb()) != (w1, w2) {
                    return Some((
                        opname("into_two_posits"),
                        format!("(0x{:x}, 0x{:x})", p1.tb(), p2.tb()),
                        format!("(0x{:x}, 0x{:x})", w1, w2),
                    ));
                }
                None
            }
            _ => {
                let (p1, p2, p3) = q.dup().i_into_three();
                let (w1, w2, w3) = if s.is_nar() {
                    (f.nar(), f.nar(), f.nar())
                } else {
                    let w1 = s.encode_bits(f);
                    let r1 = s.sub(&Val::decode(f, w1));
                    let w2 = r1.encode_bits(f);
                    let r2 = r1.sub(&Val::decode(f, w2));
                    (w1, w2, r2.encode_bits(f))
                };
                if (p1.tb(), p2.tb(), p3.tb()) != (w1, w2, w3) {
                    return Some((
                        opname("into_three_posits"),
                        format!("(0x{:x}, 0x{:x}, 0x{:x})", p1.tb(), p2.tb(), p3.tb()),
                        format!("(0x{:x}, 0x{:x}, 0x{:x})", w1, w2, w3),
                    ));
                }
                None
            }
        
    }
}

/// one C12 walk: reach states with accumulate events, judge the state operations
fn history_c12<Q: QT>(r: &mut Rng, maxlen: u64, st: &mut Stats, sketch: &Sketch) {
    let slot = rt::my_slot();
    let f = <Q::P as PT>::F;
    let len = 1 + r.below(maxlen);
    let mut q = Q::init();
    let mut evs: Vec<Ev> = Vec::new();
    st.histories += 1;
    let mut fast_forwarded = false;
    if r.chance(1, 3) {
        let start = hostile_state::<Q>(r);
        q = Q::from_limbs_le(&start);
        evs.push(Ev { kind: K_STATE, p: start });
        st.fast_forwarded += 1;
        fast_forwarded = true;
    }
    for step in 0..len {
        // reach a new state (a fast-forwarded start state is judged as it is first)
        if !(step == 0 && fast_forwarded) {
            let nar_ok = r.chance(1, 64);
            let e = gen_event::<Q>(r, &evs, nar_ok);
            evs.push(e.clone());
            rt::doing_set(&format!("{}::accumulate", Q::NAME), &encode_events(&evs));
            rt::enter(slot, usize::MAX - 5, evs.len() as u64, e.kind as u64, 0);
            let res = rt::guarded(|| apply(&mut q, &e));
            rt::leave(slot);
            if res.is_err() {
                return; // C04 / C16 report panics of accumulate; nothing to judge here
            }
            st.events += 1;
        }
        let state = q.limbs_le();
        let s = Val::from_fixed(&state, Q::TOTAL_BITS, Q::FRAC_BITS);
        let which = r.below(5);
        let opname = |n: &str| format!("{}::{}", Q::NAME, n);
        st.cov.evaluations += 1;
        st.c12_checks[which as usize] += 1;
        {
            let names = ["neg", "clear", "from_bits(to_bits)", "into_two_posits", "into_three_posits"];
            rt::doing_set(&format!("{}::{}", Q::NAME, names[which as usize]), &state);
        }
        rt::enter(slot, usize::MAX - 5, evs.len() as u64, 100 + which, state[0]);
        let verdict: Result<Option<(String, String, String)>, String> = rt::guarded(|| check_state_op(&q, which));
        rt::leave(slot);
        let names = ["neg", "clear", "from_bits(to_bits)", "into_two_posits", "into_three_posits"];
        match verdict {
            Err(msg) => {
                fail(st, opname(names[which as usize]), "panic", state.clone(), "PANIC".into(), "a result".into(),
                     format!("state {}: {}", hex_limbs(&state), msg));
                return;
            }
            Ok(Some((op, got, want))) => {
                fail(st, op, "mismatch", state.clone(), got, want,
                     format!("quire state {} = {}", hex_limbs(&state), s.describe()));
                return;
            }
            Ok(None) => {}
        }
        if !s.is_zero() && !s.is_nar() {
            let h = state.iter().fold(which, |h, &w| mix64(h ^ w));
            if sketch.insert(h) {
                st.cov.nontrivial += 1;
            }
            for (i, l) in state.iter().enumerate() {
                if *l != 0 && *l != u64::MAX {
                    st.limb_occupied |= 1 << i;
                }
            }
        }
        if st.samples.len() < 3 {
            st.samples.push(
                J::obj()
                    .with("quire", J::s(Q::NAME))
                    .with("state", J::s(&hex_limbs(&state)))
                    .with("operation", J::s(names[which as usize])),
            );
        }
        // sometimes continue from a negated state (reaches negative sums quickly)
        if which == 0 && r.chance(1, 2) {
            q.i_neg();
            evs.push(Ev { kind: K_NEG, p: vec![] });
        }
    }
}

fn run_for<Q: QT>(ctx: &Ctx, rep: &mut Report, c12: bool, histories: u64, maxlen: u64) {
    let per_shard = 256u64;
    let nshards = (histories + per_shard - 1) / per_shard;
    let sketch = Sketch::new(26);
    let seed = mix64(ctx.seed ^ crate::sweep::hash_str(Q::NAME) ^ if c12 { 0xc12 } else { 0xc04 });
    let locals = rt::par_shards(
        ctx.threads,
        nshards,
        Stats::default,
        |shard, st: &mut Stats| {
            let mut r = Rng::new(seed, shard);
            for _ in 0..per_shard {
                // mostly short histories (many short beat one enormous), sometimes long
                let ml = match r.below(16) {
                    0 => maxlen,
                    1..=3 => (maxlen / 8).max(8),
                    _ => 24.min(maxlen),
                };
                if c12 {
                    history_c12::<Q>(&mut r, ml, st, &sketch);
                } else {
                    history_c04::<Q>(&mut r, ml, st, &sketch);
                }
            }
        },
    )
    .unwrap_or_else(|_| unreachable!());
    let mut tot = Stats::default();
    for l in locals {
        tot.cov.merge(&l.cov);
        tot.histories += l.histories;
        tot.events += l.events;
        for i in 0..31 {
            tot.kind_hist[i] += l.kind_hist[i];
        }
        tot.fast_forwarded += l.fast_forwarded;
        tot.len_max = tot.len_max.max(l.len_max);
        tot.limb_occupied |= l.limb_occupied;
        tot.limb_carry |= l.limb_carry;
        tot.nar_injections += l.nar_injections;
        tot.truncated_out_of_range += l.truncated_out_of_range;
        tot.order_checks += l.order_checks;
        tot.to_posit_checks += l.to_posit_checks;
        for i in 0..5 {
            tot.c12_checks[i] += l.c12_checks[i];
        }
        for s in l.samples {
            if tot.cov.samples.len() < 3 {
                tot.cov.samples.push(s);
            }
        }
        let kept = l.fails.len() as u64;
        for f in l.fails {
            rep.add_failure(f);
        }
        if l.fail_count > kept {
            rep.add_failure_count(&format!("{}::accumulate", Q::NAME), l.fail_count - kept);
        }
    }
    let mut kinds = J::obj();
    for i in 0..31 {
        if tot.kind_hist[i] > 0 {
            kinds.set(KIND_NAMES[i], J::u(tot.kind_hist[i]));
        }
    }
    let bits = |m: u64| J::arr((0..8).filter(|i| m >> i & 1 == 1).map(|i| J::u(i)));
    let mut extra = J::obj()
        .with("histories", J::u(tot.histories))
        .with("events", J::u(tot.events))
        .with("longest_history", J::u(tot.len_max))
        .with("event_kinds", kinds)
        .with("limbs_holding_significant_bits", bits(tot.limb_occupied))
        .with("limbs_changed_by_carry_or_borrow_only", bits(tot.limb_carry))
        .with("histories_fast_forwarded_from_a_hostile_reachable_state", J::u(tot.fast_forwarded))
        .with("nar_injections", J::u(tot.nar_injections))
        .with("histories_stopped_because_exact_sum_left_the_range", J::u(tot.truncated_out_of_range))
        .with("order_permutation_checks", J::u(tot.order_checks))
        .with("to_posit_observations", J::u(tot.to_posit_checks));
    if c12 {
        let names = ["neg", "clear", "from_bits(to_bits)", "into_two_posits", "into_three_posits"];
        let mut j = J::obj();
        for i in 0..5 {
            j.set(names[i], J::u(tot.c12_checks[i]));
        }
        extra.set("state_operation_checks", j);
    }
    if let J::Obj(m) = &mut rep.extra {
        m.insert(Q::NAME.to_string(), extra);
    }
    let name = format!("{}::{}", Q::NAME, if c12 { "state_ops_on_reached_states" } else { "histories" });
    rep.add_subspace(
        &name,
        tot.cov,
        false,
        &format!(
            "{} generated histories (length 1..{}), every event observed; distinct = distinct {} by 2^26-bit hash sketch",
            histories,
            maxlen,
            if c12 { "(state, operation) pairs with a non-zero real state" } else { "non-trivial histories" }
        ),
    );
}

pub fn run_c04(ctx: &Ctx, rep: &mut Report) {
    let (h, ml) = if ctx.quick() { (250_000 >> crate::rt::scale_shift(), 64) } else { (3_000_000, 4096) };
    run_for::<Q8E0>(ctx, rep, false, h, ml.min(512));
    run_for::<Q16E1>(ctx, rep, false, h, ml);
    run_for::<Q32E2>(ctx, rep, false, h, ml);
}

pub fn run_c12(ctx: &Ctx, rep: &mut Report) {
    let (h, ml) = if ctx.quick() { (150_000 >> crate::rt::scale_shift(), 48) } else { (2_000_000, 1024) };
    run_for::<Q8E0>(ctx, rep, true, h, ml.min(256));
    run_for::<Q16E1>(ctx, rep, true, h, ml);
    run_for::<Q32E2>(ctx, rep, true, h, ml);
}

/// replay a recorded C04 history (flattened event words); prints every observation
pub fn replay_history(qname: &str, words: &[u64]) -> bool {
    fn go<Q: QT>(words: &[u64]) -> bool {
        let evs = decode_events(words);
        let mut q = Q::init();
        let mut shadow = Val::Zero;
        let mut st = Stats::default();
        let mut bad = false;
        for (i, e) in evs.iter().enumerate() {
            if e.kind == K_CLEAR {
                shadow = Val::Zero;
            } else if e.kind == K_STATE {
                shadow = Val::from_fixed(&e.p, Q::TOTAL_BITS, Q::FRAC_BITS);
            } else {
                for t in terms::<Q::P>(e) {
                    let tv = term_val::<Q::P>(&t);
                    shadow = if shadow.is_nar() || tv.is_nar() { Val::NaR } else { shadow.add(&tv) };
                }
            }
            let r = rt::guarded(|| apply(&mut q, e));
            println!("REPLAY event #{} {} {:x?}", i, KIND_NAMES[e.kind as usize], e.p);
            if let Err(m) = r {
                println!("REPLAY   PANIC {}", m);
                return true;
            }
            println!("REPLAY   image {}  exact sum {}", hex_limbs(&q.limbs_le()), shadow.describe());
            if !shadow.is_nar() && shadow.to_fixed(Q::TOTAL_BITS, Q::FRAC_BITS).is_none() {
                println!("REPLAY   exact sum left the quire range: property silent from here");
                break;
            }
            match rt::guarded(|| check_state(&q, &shadow, &mut st)) {
                Ok(None) => {}
                Ok(Some((what, got, want))) => {
                    println!("REPLAY   {} got={} want={}", what, got, want);
                    bad = true;
                }
                Err(m) => {
                    println!("REPLAY   PANIC while observing: {}", m);
                    bad = true;
                }
            }
        }
        bad
    }
    match qname {
        "Q8E0" => go::<Q8E0>(words),
        "Q16E1" => go::<Q16E1>(words),
        _ => go::<Q32E2>(words),
    }
}


/// replay one C12 state operation on a recorded state ("Q16E1::neg" etc., words = the bit image)
pub fn replay_state_op(name: &str, words: &[u64]) -> Option<bool> {
    let (qn, opn) = name.split_once("::")?;
    let which = ["neg", "clear", "from_bits(to_bits)", "into_two_posits", "into_three_posits"]
        .iter()
        .position(|n| *n == opn)? as u64;
    fn go<Q: QT>(which: u64, words: &[u64]) -> bool {
        let q = Q::from_limbs_le(words);
        match rt::guarded(|| check_state_op(&q, which)) {
            Ok(None) => {
                println!("REPLAY state operation as required");
                false
            }
            Ok(Some((op, got, want))) => {
                println!("REPLAY {} got={} want={}", op, got, want);
                true
            }
            Err(m) => {
                println!("REPLAY got=PANIC {}", m);
                true
            }
        }
    }
    Some(match qn {
        "Q8E0" => go::<Q8E0>(which, words),
        "Q16E1" => go::<Q16E1>(which, words),
        "Q32E2" => go::<Q32E2>(which, words),
        _ => return None,
    })
}
