//! Per-property monitors. The table-driven properties use the generic sweep; the others
//! have a module of their own.

pub mod c15;
pub mod catalogue;
pub mod poly;
pub mod quire;
pub mod rngmon;

use crate::ops::Registry;
use crate::rt::{Ctx, Report};
use crate::sweep::{self, Mode, Plan};

/// (exhaustive threshold in bits, hostile samples per op) for (quick, thorough)
fn budget(prop: &str, quick: bool) -> (f64, u64) {
    let k = crate::rt::scale_shift();
    let (e, s) = budget0(prop, quick);
    ((e - k as f64).max(8.0), (s >> k).max(1))
}

fn budget0(prop: &str, quick: bool) -> (f64, u64) {
    match (prop, quick) {
        ("C01", true) => (24.0, 1 << 26),
        ("C01", false) => (32.0, 1 << 31),
        ("C02", true) => (16.0, 1 << 26),
        ("C02", false) => (32.0, 1 << 30),
        ("C03", true) => (16.0, 1 << 23),
        ("C03", false) => (32.0, 1 << 28),
        ("C05", true) => (24.0, 1 << 26),
        ("C05", false) => (24.0, 1 << 30),
        ("C06", true) => (16.0, 1 << 25),
        ("C06", false) => (32.0, 1 << 28),
        ("C07", true) => (16.0, 1 << 24),
        ("C07", false) => (32.0, 1 << 30),
        ("C08", true) => (16.0, 1 << 25),
        ("C08", false) => (32.0, 1 << 28),
        ("C09", true) => (16.0, 1 << 24),
        ("C09", false) => (32.0, 1 << 28),
        ("C10", true) => (24.0, 1 << 22),
        ("C10", false) => (32.0, 1 << 27),
        ("C13", true) => (20.0, 1 << 20),
        ("C13", false) => (24.0, 1 << 26),
        ("C14", true) => (16.0, 1 << 19),
        ("C14", false) => (28.0, 1 << 24),
        ("C17", true) => (16.0, 1 << 22),
        ("C17", false) => (24.0, 1 << 27),
        (_, true) => (16.0, 1 << 20),
        (_, false) => (24.0, 1 << 24),
    }
}

pub fn run(ctx: &Ctx, reg: &Registry, rep: &mut Report) {
    match ctx.prop.as_str() {
        "C01" | "C02" | "C03" | "C05" | "C06" | "C07" | "C08" | "C09" | "C10" | "C13" | "C14" | "C17" => {
            let (exh, samples) = budget(&ctx.prop, ctx.quick());
            let mut plans = sweep::plan_for(reg, &ctx.prop, exh, samples);
            // quick tier: unary ops over a 32-bit space that have a fast oracle also get a
            // seed-rotated strided pass (1/16 of the space, 1/4 for sqrt): sparse defects that no
            // generator class aims at (a few dozen inputs out of 2^32) are met with high
            // probability on every run, not only in the thorough tier
            if ctx.quick() && crate::rt::scale_shift() == 0 && matches!(ctx.prop.as_str(), "C03" | "C06" | "C07" | "C08" | "C09") {
                let stride = if ctx.prop == "C06" { 4 } else { 16 };
                for (i, op) in reg.for_prop(&ctx.prop) {
                    if op.arity() == 1 && op.fast.is_some() && !op.stub && (op.space_log2() - 32.0).abs() < 1e-9 {
                        plans.push(Plan {
                            op: i,
                            mode: Mode::Strided { stride, offset: crate::rng::mix64(ctx.seed ^ 0x57_1de) },
                            name: format!("{} (strided 1/{})", op.name, stride),
                        });
                    }
                }
            }
            // thorough C14: main entries whose space has 29..32 bits (every conversion of the widest
            // generic types, all i32 / u32 / f32 sources) are too many to enumerate completely
            // (~1.3e12 calls); they get a seed-rotated 1/16 stride on top of the hostile samples
            if !ctx.quick() && ctx.prop == "C14" {
                for (i, op) in reg.for_prop("C14") {
                    let sp = op.space_log2();
                    if !op.stub && op.fast.is_some() && op.weight >= 1.0 && sp > 28.0 && sp <= 32.0 {
                        plans.push(Plan {
                            op: i,
                            mode: Mode::Strided { stride: 16, offset: crate::rng::mix64(ctx.seed ^ 0x57_1de) },
                            name: format!("{} (strided 1/16)", op.name),
                        });
                    }
                }
            }
            run_plans(ctx, reg, plans, rep);
            use std::sync::atomic::Ordering::Relaxed;
            rep.extra.set(
                "constructed_rounding_traps",
                crate::json::J::obj()
                    .with("fused_triples_at_least", crate::json::J::u(crate::gen::TRAPS_FUSED.load(Relaxed)))
                    .with("product_partners_at_least", crate::json::J::u(crate::gen::TRAPS_PRODUCT.load(Relaxed)))
                    .with("note", crate::json::J::s("operand tuples solved for (modular inverse) so that the exact result is a rounding boundary +- a residue in the last bits of the working significand; counted in batches of 4096 per thread")),
            );
        }
        "C04" => quire::run_c04(ctx, rep),
        "C11" => {
            match crate::ops_misc::tables() {
                None => rep.harness_errors.push(
                    "reference tables not found: set SPVERIF_TABLES to the directory holding <fn>_p16.bin / <fn>_p8.bin".into(),
                ),
                Some(t) => {
                    rep.extra.set("tables_dir", crate::json::J::s(&t.dir));
                    let plans = sweep::plan_for(reg, "C11", 16.0, 1);
                    run_plans(ctx, reg, plans, rep);
                }
            }
        }
        "C19" => rngmon::run(ctx, reg, rep),
        "C15" => c15::run(ctx, rep),
        "C18" => poly::run(ctx, rep),
        "C12" => {
            let k = crate::rt::scale_shift();
            let (exh, samples) = if ctx.quick() { (16.0 - k as f64, (1u64 << 24) >> k) } else { (32.0, 1 << 28) };
            let mut plans = sweep::plan_for(reg, "C12", exh, samples);
            if ctx.quick() && k == 0 {
                for (i, op) in reg.for_prop("C12") {
                    if op.arity() == 1 && op.fast.is_some() && (op.space_log2() - 32.0).abs() < 1e-9 {
                        plans.push(Plan {
                            op: i,
                            mode: Mode::Strided { stride: 16, offset: crate::rng::mix64(ctx.seed ^ 0x57_1de) },
                            name: format!("{} (strided 1/16)", op.name),
                        });
                    }
                }
            }
            run_plans(ctx, reg, plans, rep);
            quire::run_c12(ctx, rep);
        }
        other => {
            rep.harness_errors.push(format!("no monitor for property {}", other));
        }
    }
}

pub fn run_plans(ctx: &Ctx, reg: &Registry, plans: Vec<Plan>, rep: &mut Report) {
    // debugging aid: SPVERIF_ONLY=<substring> restricts a run to matching sub-spaces
    let only = std::env::var("SPVERIF_ONLY").ok();
    for p in plans {
        if let Some(o) = &only {
            if !p.name.contains(o.as_str()) {
                continue;
            }
        }
        let t = std::time::Instant::now();
        sweep::run_plan(ctx, reg, &p, rep);
        if std::env::var("SPVERIF_VERBOSE").is_ok() {
            eprintln!("  {:<40} {:?} {:.2}s", p.name, mode_str(&p.mode), t.elapsed().as_secs_f64());
        }
    }
}

fn mode_str(m: &Mode) -> String {
    match m {
        Mode::Exhaustive => "exhaustive".into(),
        Mode::Sample(n) => format!("sample {}", n),
        Mode::Strided { stride, .. } => format!("stride {}", stride),
    }
}
