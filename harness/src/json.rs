//! Tiny JSON value + serializer (no external crates).

use std::collections::BTreeMap;

#[derive(Clone, Debug)]
pub enum J {
    Null,
    Bool(bool),
    Int(i128),
    Num(f64),
    Str(String),
    Arr(Vec<J>),
    Obj(BTreeMap<String, J>),
}

impl J {
    pub fn obj() -> J {
        J::Obj(BTreeMap::new())
    }
    pub fn set(&mut self, k: &str, v: J) -> &mut J {
        if let J::Obj(m) = self {
            m.insert(k.to_string(), v);
        } else {
            panic!("set on non-object");
        }
        self
    }
    pub fn with(mut self, k: &str, v: J) -> J {
        self.set(k, v);
        self
    }
    pub fn s(v: &str) -> J {
        J::Str(v.to_string())
    }
    pub fn i<T: Into<i128>>(v: T) -> J {
        J::Int(v.into())
    }
    pub fn u(v: u64) -> J {
        J::Int(v as i128)
    }
    pub fn hex(v: u64) -> J {
        J::Str(format!("0x{:x}", v))
    }
    pub fn arr<I: IntoIterator<Item = J>>(it: I) -> J {
        J::Arr(it.into_iter().collect())
    }
    pub fn write(&self, out: &mut String) {
        match self {
            J::Null => out.push_str("null"),
            J::Bool(b) => out.push_str(if *b { "true" } else { "false" }),
            J::Int(i) => out.push_str(&i.to_string()),
            J::Num(f) => {
                if f.is_finite() {
                    out.push_str(&format!("{}", f));
                } else {
                    out.push_str("null");
                }
            }
            J::Str(s) => {
                out.push('"');
                for c in s.chars() {
                    match c {
                        '"' => out.push_str("\\\""),
                        '\\' => out.push_str("\\\\"),
                        '\n' => out.push_str("\\n"),
                        '\r' => out.push_str("\\r"),
                        '\t' => out.push_str("\\t"),
                        c if (c as u32) < 0x20 => out.push_str(&format!("\\u{:04x}", c as u32)),
                        c => out.push(c),
                    }
                }
                out.push('"');
            }
            J::Arr(a) => {
                out.push('[');
                for (i, v) in a.iter().enumerate() {
                    if i > 0 {
                        out.push(',');
                    }
                    v.write(out);
                }
                out.push(']');
            }
            J::Obj(m) => {
                out.push('{');
                for (i, (k, v)) in m.iter().enumerate() {
                    if i > 0 {
                        out.push(',');
                    }
                    J::Str(k.clone()).write(out);
                    out.push(':');
                    v.write(out);
                }
                out.push('}');
            }
        }
    }
    pub fn to_string(&self) -> String {
        let mut s = String::new();
        self.write(&mut s);
        s
    }
}
