//! Catalogue-only entries (C16): public operations that no other property names, plus
//! composite entries that drive the quires, the polynomial family, linalg and the simba /
//! approx trait impls on three operand words and return a digest of everything observable.
//! They have no oracle: C16 judges "returns normally" and "same bits in every build profile".

use crate::gen::Kind;
use crate::ops::{Op, OutKind};
use crate::pt::{PT, QT};
use crate::rng::mix64;
use crate::val::{P16, P32, P8};
use softposit::{P16E1, P32E2, P8E0, Q16E1, Q32E2, Q8E0};

fn nm<T: PT>(s: &str) -> String {
    format!("{}::{}", T::NAME, s)
}

fn common<T: PT + std::hash::Hash + Default>(ops: &mut Vec<Op>) {
    let k = Kind::Pat(T::F);
    let out = OutKind::Pat(T::F);
    ops.push(Op::new(nm::<T>("rem"), &["C16"], &[k, k], out, |x, y, _| T::fb(x).i_rem(T::fb(y)).tb()));
    ops.push(Op::new(nm::<T>("div_euclid"), &["C16"], &[k, k], out, |x, y, _| T::fb(x).i_div_euclid(T::fb(y)).tb()));
    ops.push(Op::new(nm::<T>("rem_euclid"), &["C16"], &[k, k], out, |x, y, _| T::fb(x).i_rem_euclid(T::fb(y)).tb()));
    ops.push(Op::new(nm::<T>("recip"), &["C16"], &[k], out, |x, _, _| T::fb(x).i_recip().tb()));
    ops.push(Op::new(nm::<T>("asinh"), &["C16"], &[k], out, |x, _, _| T::fb(x).i_asinh().tb()));
    ops.push(Op::new(nm::<T>("acosh"), &["C16"], &[k], out, |x, _, _| T::fb(x).i_acosh().tb()));
    ops.push(Op::new(nm::<T>("Display+Debug"), &["C16"], &[k], OutKind::Raw, |x, _, _| {
        crate::sweep::hash_str(&format!("{} {:?}", T::fb(x), T::fb(x)))
    }));
    ops.push(Op::new(nm::<T>("new/consts"), &["C16"], &[], OutKind::Raw, |_, _, _| {
        mix64(T::c_zero().tb() ^ mix64(T::c_one().tb() ^ mix64(T::c_nar().tb() ^ mix64(T::c_min().tb() ^ mix64(T::c_max().tb() ^ mix64(T::c_min_positive().tb() ^ T::c_epsilon().tb()))))))
    }));
    ops.push(Op::new(nm::<T>("Hash+Default+Clone"), &["C16"], &[k], OutKind::Raw, |x, _, _| {
        use std::hash::{Hash, Hasher};
        let mut h = std::collections::hash_map::DefaultHasher::new();
        T::fb(x).hash(&mut h);
        h.finish() ^ T::default().tb()
    }));
    // num_traits methods with default bodies that reach crate code
    ops.push(Op::new(nm::<T>("num_traits::Float::epsilon/copysign"), &["C16"], &[k, k], OutKind::Raw, |x, y, _| {
        use num_traits::Float;
        let a = T::fb(x);
        let b = T::fb(y);
        (<T as Float>::epsilon().tb() << 3) ^ (Float::copysign(a, b).tb() << 11)
    }));
}

fn quire_cat<Q: QT>(ops: &mut Vec<Op>) {
    let f = <Q::P as PT>::F;
    let k = Kind::Pat(f);
    ops.push(Op::new(format!("{}::catalogue(a,b,c)", Q::NAME), &["C16"], &[k, k, k], OutKind::Raw, |x, y, z| {
        let (a, b, c) = (<Q::P as PT>::fb(x), <Q::P as PT>::fb(y), <Q::P as PT>::fb(z));
        let mut h = 0u64;
        let mut obs = |q: &Q| {
            for w in q.limbs_le() {
                h = mix64(h ^ w);
            }
            h = mix64(h ^ q.i_to_posit().tb() ^ ((q.i_is_zero() as u64) << 40) ^ ((q.i_is_nar() as u64) << 41));
        };
        let mut q = Q::i_from_posit(c);
        obs(&q);
        q.add_prod(a, b);
        obs(&q);
        q.sub_one(a);
        obs(&q);
        q.add_t3(a, b, c, a);
        obs(&q);
        q.sub_pairs(a, b, c, b);
        obs(&q);
        q.add_arr(c, &[a, b, c, a]);
        obs(&q);
        q.i_neg();
        obs(&q);
        let (p1, p2) = q.dup().i_into_two();
        let (r1, r2, r3) = q.dup().i_into_three();
        let hh = mix64(h ^ p1.tb() ^ (p2.tb() << 8) ^ (r1.tb() << 16) ^ (r2.tb() << 24) ^ (r3.tb() << 32));
        q.i_clear();
        let mut h2 = hh;
        for w in q.limbs_le() {
            h2 = mix64(h2 ^ w);
        }
        h2 ^ crate::sweep::hash_str(&format!("{}", q.display_string()))
    }));
}

macro_rules! poly_cat {
    ($ops:ident, $T:ty, $F:expr, $name:literal) => {
        $ops.push(Op::new(concat!($name, "::poly1..18,3a,4a(x,c0,c1)"), &["C16"], &[Kind::Pat($F), Kind::Pat($F), Kind::Pat($F)], OutKind::Raw, |x, c0, c1| {
            use softposit::Polynom;
            let xp = <$T>::from_bits(x as _);
            // 19 coefficients derived from the two operand words
            let mut c = [<$T>::from_bits(0); 19];
            let mut s = mix64(c0 ^ (c1 << 32));
            for (i, v) in c.iter_mut().enumerate() {
                *v = match i % 3 {
                    0 => <$T>::from_bits(c0 as _),
                    1 => <$T>::from_bits(c1 as _),
                    _ => {
                        s = mix64(s);
                        <$T>::from_bits(s as _)
                    }
                };
            }
            let mut h = 0u64;
            macro_rules! p {
                ($m:ident, $n:expr) => {{
                    let a: [$T; $n] = c[..$n].try_into().unwrap();
                    h = mix64(h ^ (xp.$m(&a).to_bits() as u64));
                    let b: [[$T; 2]; $n] = core::array::from_fn(|i| [c[i], c[($n - 1) - i]]);
                    h = mix64(h ^ (xp.$m(&b).to_bits() as u64));
                }};
            }
            p!(poly1, 2); p!(poly2, 3); p!(poly3, 4); p!(poly4, 5); p!(poly5, 6); p!(poly6, 7);
            p!(poly7, 8); p!(poly8, 9); p!(poly9, 10); p!(poly10, 11); p!(poly11, 12); p!(poly12, 13);
            p!(poly13, 14); p!(poly14, 15); p!(poly15, 16); p!(poly16, 17); p!(poly17, 18); p!(poly18, 19);
            p!(poly3a, 4); p!(poly4a, 5);
            h
        }));
    };
}

macro_rules! linalg_cat {
    ($ops:ident, $T:ty, $F:expr, $name:literal) => {
        $ops.push(Op::new(concat!($name, "::linalg(quire_dot, simba, approx)"), &["C16"], &[Kind::Pat($F), Kind::Pat($F), Kind::Pat($F)], OutKind::Raw, |x, y, z| {
            use approx::{AbsDiffEq, RelativeEq, UlpsEq};
            use nalgebra::{Matrix2, Matrix2x3, Matrix3x2};
            use simba::scalar::{ComplexField, RealField};
            use softposit::QuireDot;
            let (a, b, c) = (<$T>::from_bits(x as _), <$T>::from_bits(y as _), <$T>::from_bits(z as _));
            let m = Matrix2x3::new(a, b, c, c, a, b);
            let n = Matrix3x2::new(b, a, c, b, a, c);
            let d: Matrix2<$T> = m.quire_dot(&n);
            let mut h = 0u64;
            for v in d.iter() {
                h = mix64(h ^ (v.to_bits() as u64));
            }
            // approx: subtraction of NaR etc. must not panic
            h ^= (a.abs_diff_eq(&b, c) as u64) << 1;
            h ^= (a.ulps_eq(&b, c, 4) as u64) << 2;
            h ^= (a.relative_eq(&b, c, <$T>::EPSILON) as u64) << 3;
            // simba: a selection of the forwarding methods
            h = mix64(h ^ (ComplexField::modulus_squared(a).to_bits() as u64));
            h = mix64(h ^ (ComplexField::scale(a, b).to_bits() as u64) ^ ((ComplexField::unscale(a, b).to_bits() as u64) << 16));
            h = mix64(h ^ (ComplexField::argument(a).to_bits() as u64) ^ ((ComplexField::to_exp(a).0.to_bits() as u64) << 8));
            h = mix64(h ^ (ComplexField::try_sqrt(a).map(|v| v.to_bits() as u64).unwrap_or(7)));
            h = mix64(h ^ (RealField::copysign(a, b).to_bits() as u64) ^ ((RealField::max(a, b).to_bits() as u64) << 8) ^ ((RealField::min(a, b).to_bits() as u64) << 16));
            h = mix64(h ^ (<$T as RealField>::two_pi().to_bits() as u64) ^ (RealField::is_sign_negative(&a) as u64));
            h
        }));
    };
}

macro_rules! p32_fn1 {
    ($ops:ident, $($m:ident),*) => {$(
        $ops.push(Op::new(concat!("P32E2::", stringify!($m)), &["C16"], &[Kind::Pat(P32)], OutKind::Pat(P32),
            |x, _, _| P32E2::from_bits(x as u32).$m().to_bits() as u64));
    )*};
}
macro_rules! p32_trig {
    ($ops:ident, $($m:ident),*) => {$(
        // |x| >= 393216 is an explicit todo!() branch (TRIGRANGEMAX): outside the catalogue
        $ops.push(Op::new(concat!("P32E2::", stringify!($m)), &["C16"], &[Kind::Pat(P32)], OutKind::Pat(P32),
            |x, _, _| {
                let p = P32E2::from_bits(x as u32);
                if !p.is_nar() && p.abs() >= P32E2::from_bits(0x7d40_0000) { return 0; }
                p.$m().to_bits() as u64
            }).note("inputs with |x| >= 393216 skipped: explicit todo!() branch"));
    )*};
}
macro_rules! p32_fn2 {
    ($ops:ident, $($m:ident),*) => {$(
        $ops.push(Op::new(concat!("P32E2::", stringify!($m)), &["C16"], &[Kind::Pat(P32), Kind::Pat(P32)], OutKind::Pat(P32),
            |x, y, _| P32E2::from_bits(x as u32).$m(P32E2::from_bits(y as u32)).to_bits() as u64));
    )*};
}

pub fn register(ops: &mut Vec<Op>) {
    common::<P8E0>(ops);
    common::<P16E1>(ops);
    common::<P32E2>(ops);
    quire_cat::<Q8E0>(ops);
    quire_cat::<Q16E1>(ops);
    quire_cat::<Q32E2>(ops);
    poly_cat!(ops, P8E0, P8, "P8E0");
    poly_cat!(ops, P16E1, P16, "P16E1");
    poly_cat!(ops, P32E2, P32, "P32E2");
    linalg_cat!(ops, P8E0, P8, "P8E0");
    linalg_cat!(ops, P16E1, P16, "P16E1");
    linalg_cat!(ops, P32E2, P32, "P32E2");
    // P32E2 elementary functions (C15 judges their accuracy; here: totality + profile independence)
    p32_fn1!(ops, exp, exp2, exp10, ln, log2, cbrt, asin, acos, atan, sinh, cosh, tanh, to_degrees, to_radians);
    p32_trig!(ops, sin, cos, tan);
    p32_fn2!(ops, powf, hypot, atan2);
    ops.push(Op::new("P32E2::sin_cos", &["C16"], &[Kind::Pat(P32)], OutKind::Raw, |x, _, _| {
        let p = P32E2::from_bits(x as u32);
        if !p.is_nar() && p.abs() >= P32E2::from_bits(0x7d40_0000) {
            return 0;
        }
        let (s, c) = p.sin_cos();
        (s.to_bits() as u64) | ((c.to_bits() as u64) << 32)
    }));
    ops.push(Op::new("P16E1::to_degrees/to_radians", &["C16"], &[Kind::Pat(P16)], OutKind::Raw, |x, _, _| {
        let p = P16E1::from_bits(x as u16);
        (p.to_degrees().to_bits() as u64) | ((p.to_radians().to_bits() as u64) << 16)
    }));
}
