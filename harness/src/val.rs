//! Exact values and the posit rule (DESIGN §3). Independent of the crate under test.
//!
//! `Val::Num { neg, m, e, sticky }` denotes  (-1)^neg * (m + eps) * 2^e  with `m > 0` an
//! arbitrary-precision integer and `eps = 0` (sticky == false) or `0 < eps < 1` (sticky == true).

use crate::big::BigUint;
use std::cmp::Ordering;

/// extra quotient / root bits produced by div and sqrt (far more than any format needs)
pub const EXTRA_BITS: u64 = 200;

#[derive(Clone, Debug, PartialEq, Eq)]
pub enum Val {
    Zero,
    NaR,
    Num {
        neg: bool,
        m: BigUint,
        e: i64,
        sticky: bool,
    },
}

#[derive(Clone, Copy, Debug, PartialEq, Eq)]
pub struct Fmt {
    pub n: u32,
    pub es: u32,
}
pub const P8: Fmt = Fmt { n: 8, es: 0 };
pub const P16: Fmt = Fmt { n: 16, es: 1 };
pub const P32: Fmt = Fmt { n: 32, es: 2 };

impl Fmt {
    pub fn mask(self) -> u64 {
        if self.n == 64 {
            u64::MAX
        } else {
            (1u64 << self.n) - 1
        }
    }
    pub fn nar(self) -> u64 {
        1u64 << (self.n - 1)
    }
    pub fn maxpos(self) -> u64 {
        (1u64 << (self.n - 1)) - 1
    }
    pub fn neg(self, p: u64) -> u64 {
        p.wrapping_neg() & self.mask()
    }
}

impl Val {
    pub fn num(neg: bool, m: BigUint, e: i64) -> Val {
        if m.is_zero() {
            Val::Zero
        } else {
            Val::Num {
                neg,
                m,
                e,
                sticky: false,
            }
        }
    }
    pub fn from_i128(v: i128) -> Val {
        if v == 0 {
            Val::Zero
        } else {
            Val::num(v < 0, BigUint::from_u128(v.unsigned_abs()), 0)
        }
    }
    pub fn from_u128(v: u128) -> Val {
        Val::num(false, BigUint::from_u128(v), 0)
    }
    pub fn pow2(e: i64) -> Val {
        Val::num(false, BigUint::from_u64(1), e)
    }
    pub fn is_nar(&self) -> bool {
        matches!(self, Val::NaR)
    }
    pub fn is_zero(&self) -> bool {
        matches!(self, Val::Zero)
    }
    pub fn is_neg(&self) -> bool {
        matches!(self, Val::Num { neg: true, .. })
    }
    pub fn is_exact(&self) -> bool {
        !matches!(self, Val::Num { sticky: true, .. })
    }
    pub fn neg(&self) -> Val {
        match self {
            Val::Num { neg, m, e, sticky } => Val::Num {
                neg: !neg,
                m: m.clone(),
                e: *e,
                sticky: *sticky,
            },
            v => v.clone(),
        }
    }
    pub fn abs(&self) -> Val {
        match self {
            Val::Num { m, e, sticky, .. } => Val::Num {
                neg: false,
                m: m.clone(),
                e: *e,
                sticky: *sticky,
            },
            v => v.clone(),
        }
    }
    /// floor(log2 |x|) for a non-zero number
    pub fn scale(&self) -> i64 {
        match self {
            Val::Num { m, e, .. } => *e + m.bits() as i64 - 1,
            _ => panic!("scale of non-number"),
        }
    }

    // ---------------------------------------------------------------- IEEE floats (exact)
    pub fn from_f64(x: f64) -> Val {
        let b = x.to_bits();
        let neg = b >> 63 != 0;
        let ex = ((b >> 52) & 0x7ff) as i64;
        let fr = b & ((1u64 << 52) - 1);
        if ex == 0x7ff {
            return Val::NaR;
        }
        if ex == 0 {
            if fr == 0 {
                return Val::Zero;
            }
            return Val::num(neg, BigUint::from_u64(fr), -1074);
        }
        Val::num(neg, BigUint::from_u64(fr | (1u64 << 52)), ex - 1075)
    }
    pub fn from_f32(x: f32) -> Val {
        let b = x.to_bits();
        let neg = b >> 31 != 0;
        let ex = ((b >> 23) & 0xff) as i64;
        let fr = (b & ((1u32 << 23) - 1)) as u64;
        if ex == 0xff {
            return Val::NaR;
        }
        if ex == 0 {
            if fr == 0 {
                return Val::Zero;
            }
            return Val::num(neg, BigUint::from_u64(fr), -149);
        }
        Val::num(neg, BigUint::from_u64(fr | (1u64 << 23)), ex - 150)
    }

    // ---------------------------------------------------------------- exact arithmetic
    fn parts(&self) -> (bool, &BigUint, i64, bool) {
        match self {
            Val::Num { neg, m, e, sticky } => (*neg, m, *e, *sticky),
            _ => panic!("parts of non-number"),
        }
    }
    pub fn add(&self, o: &Val) -> Val {
        if self.is_nar() || o.is_nar() {
            return Val::NaR;
        }
        if self.is_zero() {
            return o.clone();
        }
        if o.is_zero() {
            return self.clone();
        }
        let (na, ma, ea, sa) = self.parts();
        let (nb, mb, eb, sb) = o.parts();
        assert!(!sa && !sb, "add of inexact values is not supported");
        let e = ea.min(eb);
        let a = ma.shl((ea - e) as u64);
        let b = mb.shl((eb - e) as u64);
        if na == nb {
            Val::num(na, a.add(&b), e)
        } else {
            match a.cmp(&b) {
                Ordering::Equal => Val::Zero,
                Ordering::Greater => Val::num(na, a.sub(&b), e),
                Ordering::Less => Val::num(nb, b.sub(&a), e),
            }
        }
    }
    pub fn sub(&self, o: &Val) -> Val {
        self.add(&o.neg())
    }
    pub fn mul(&self, o: &Val) -> Val {
        if self.is_nar() || o.is_nar() {
            return Val::NaR;
        }
        if self.is_zero() || o.is_zero() {
            return Val::Zero;
        }
        let (na, ma, ea, sa) = self.parts();
        let (nb, mb, eb, sb) = o.parts();
        assert!(!sa && !sb, "mul of inexact values is not supported");
        Val::num(na != nb, ma.mul(mb), ea + eb)
    }
    /// quotient with EXTRA_BITS bits beyond the dividend's length, sticky = remainder != 0.
    /// Division by zero and NaR operands give NaR.
    pub fn div(&self, o: &Val) -> Val {
        if self.is_nar() || o.is_nar() || o.is_zero() {
            return Val::NaR;
        }
        if self.is_zero() {
            return Val::Zero;
        }
        let (na, ma, ea, sa) = self.parts();
        let (nb, mb, eb, sb) = o.parts();
        assert!(!sa && !sb);
        let sh = EXTRA_BITS + mb.bits();
        let (q, r) = ma.shl(sh).divrem(mb);
        Val::Num {
            neg: na != nb,
            m: q,
            e: ea - eb - sh as i64,
            sticky: !r.is_zero(),
        }
    }
    /// square root: NaR for negative / NaR, 0 for 0
    pub fn sqrt(&self) -> Val {
        match self {
            Val::NaR => Val::NaR,
            Val::Zero => Val::Zero,
            Val::Num { neg: true, .. } => Val::NaR,
            Val::Num { m, e, sticky, .. } => {
                assert!(!sticky);
                // make exponent even, then add 2*EXTRA_BITS bits
                let mut m2 = m.clone();
                let mut e2 = *e;
                if e2.rem_euclid(2) != 0 {
                    m2 = m2.shl(1);
                    e2 -= 1;
                }
                let m3 = m2.shl(2 * EXTRA_BITS);
                let (r, exact) = m3.isqrt();
                Val::Num {
                    neg: false,
                    m: r,
                    e: (e2 - 2 * EXTRA_BITS as i64) / 2,
                    sticky: !exact,
                }
            }
        }
    }
    /// exact comparison of real values; NaR is below everything and equal to itself
    pub fn cmp(&self, o: &Val) -> Ordering {
        match (self, o) {
            (Val::NaR, Val::NaR) => Ordering::Equal,
            (Val::NaR, _) => Ordering::Less,
            (_, Val::NaR) => Ordering::Greater,
            _ => {
                let sa = self.sign_i();
                let sb = o.sign_i();
                if sa != sb {
                    return sa.cmp(&sb);
                }
                if sa == 0 {
                    return Ordering::Equal;
                }
                let c = self.cmp_mag(o);
                if sa > 0 {
                    c
                } else {
                    c.reverse()
                }
            }
        }
    }
    fn sign_i(&self) -> i32 {
        match self {
            Val::Zero => 0,
            Val::Num { neg: true, .. } => -1,
            Val::Num { neg: false, .. } => 1,
            Val::NaR => panic!(),
        }
    }
    /// compare magnitudes of two non-zero numbers (sticky = strictly above m)
    pub fn cmp_mag(&self, o: &Val) -> Ordering {
        let (_, ma, ea, sa) = self.parts();
        let (_, mb, eb, sb) = o.parts();
        let e = ea.min(eb);
        // guard against absurd shifts: compare scales first
        let sca = ea + ma.bits() as i64;
        let scb = eb + mb.bits() as i64;
        if sca != scb {
            return sca.cmp(&scb);
        }
        let a = ma.shl((ea - e) as u64);
        let b = mb.shl((eb - e) as u64);
        match a.cmp(&b) {
            Ordering::Equal => match (sa, sb) {
                (false, false) => Ordering::Equal,
                (true, false) => Ordering::Greater,
                (false, true) => Ordering::Less,
                (true, true) => panic!("cannot order two inexact values with equal truncations"),
            },
            c => {
                // a != b after exact alignment.  If the smaller one is sticky and the larger
                // one is within one unit of *its* last place we cannot decide; with EXTRA_BITS
                // that never happens for the comparisons the monitors make, but check anyway.
                if c == Ordering::Less && sa {
                    let unit = BigUint::from_u64(1).shl((ea - e) as u64);
                    assert!(
                        a.add(&unit).cmp(&b) != Ordering::Greater,
                        "undecidable inexact comparison"
                    );
                }
                if c == Ordering::Greater && sb {
                    let unit = BigUint::from_u64(1).shl((eb - e) as u64);
                    assert!(
                        b.add(&unit).cmp(&a) != Ordering::Greater,
                        "undecidable inexact comparison"
                    );
                }
                c
            }
        }
    }

    // ---------------------------------------------------------------- integer functions
    /// floor / ceil / trunc / round-half-even as exact integer Val (value must be exact)
    pub fn floor(&self) -> Val {
        self.int_round(IntMode::Floor)
    }
    pub fn ceil(&self) -> Val {
        self.int_round(IntMode::Ceil)
    }
    pub fn trunc(&self) -> Val {
        self.int_round(IntMode::Trunc)
    }
    pub fn round_even(&self) -> Val {
        self.int_round(IntMode::NearestEven)
    }
    fn int_round(&self, mode: IntMode) -> Val {
        match self {
            Val::NaR => Val::NaR,
            Val::Zero => Val::Zero,
            Val::Num { neg, m, e, sticky } => {
                assert!(!sticky);
                if *e >= 0 {
                    return self.clone();
                }
                let sh = (-*e) as u64;
                let ip = m.shr(sh);
                let half = m.bit(sh - 1);
                let rest = m.low_bits_nonzero(sh - 1);
                let frac_nz = half || rest;
                let up = match mode {
                    IntMode::Trunc => false,
                    IntMode::Floor => *neg && frac_nz,
                    IntMode::Ceil => !*neg && frac_nz,
                    IntMode::NearestEven => half && (rest || ip.bit(0)),
                };
                let r = if up { ip.add(&BigUint::from_u64(1)) } else { ip };
                Val::num(*neg, r, 0)
            }
        }
    }
    /// nearest integer (ties to even) clamped to [lo, hi]; None for NaR
    pub fn to_int_rne_clamped(&self, lo: i128, hi: i128) -> Option<i128> {
        match self.round_even() {
            Val::NaR => None,
            Val::Zero => Some(0i128.clamp(lo, hi)),
            Val::Num { neg, m, e, .. } => {
                let sc = e + m.bits() as i64;
                if sc > 126 {
                    return Some(if neg { lo } else { hi });
                }
                let mag = m.shl(e as u64).to_u128().unwrap() as i128;
                let v = if neg { -mag } else { mag };
                Some(v.clamp(lo, hi))
            }
        }
    }

    // ---------------------------------------------------------------- posit decode
    /// exact value of an n-bit posit pattern (right-aligned in `p`)
    pub fn decode(f: Fmt, p: u64) -> Val {
        let p = p & f.mask();
        if p == 0 {
            return Val::Zero;
        }
        if p == f.nar() {
            return Val::NaR;
        }
        let neg = p >> (f.n - 1) != 0;
        let q = if neg { f.neg(p) } else { p };
        // bits below the sign bit, msb first
        let nb = f.n - 1;
        let bit = |i: u32| -> u64 { (q >> (nb - 1 - i)) & 1 }; // i = 0 is the first regime bit
        let r0 = bit(0);
        let mut run = 1;
        while run < nb && bit(run) == r0 {
            run += 1;
        }
        let k: i64 = if r0 == 1 { run as i64 - 1 } else { -(run as i64) };
        let mut pos = run + 1; // skip terminator (may lie beyond the end)
        let mut ex: u64 = 0;
        for _ in 0..f.es {
            ex <<= 1;
            if pos < nb {
                ex |= bit(pos);
            }
            pos += 1;
        }
        let fb = if pos < nb { nb - pos } else { 0 };
        let frac = if fb > 0 { q & ((1u64 << fb) - 1) } else { 0 };
        let m = (1u64 << fb) | frac;
        let scale = k * (1i64 << f.es) + ex as i64;
        Val::num(neg, BigUint::from_u64(m), scale - fb as i64)
    }

    // ---------------------------------------------------------------- posit encode #1
    /// The posit rule by literal construction of the bit string (DESIGN §3.1).
    pub fn encode_bits(&self, f: Fmt) -> u64 {
        self.encode_bits_class(f).0
    }
    pub fn encode_bits_class(&self, f: Fmt) -> (u64, RoundClass) {
        let (neg, m, e, sticky) = match self {
            Val::Zero => return (0, RoundClass::Zero),
            Val::NaR => return (f.nar(), RoundClass::NaR),
            Val::Num { neg, m, e, sticky } => (*neg, m, *e, *sticky),
        };
        let l = m.bits();
        let s = e + l as i64 - 1;
        let es_pow = 1i64 << f.es;
        let k = s.div_euclid(es_pow);
        let ex = s.rem_euclid(es_pow) as u64;
        let nb = (f.n - 1) as i64;
        let fin = |u: u64| if neg { f.neg(u) } else { u };
        if k >= nb - 1 {
            return (fin(f.maxpos()), RoundClass::SatMax);
        }
        if k <= -nb {
            return (fin(1), RoundClass::SatMin);
        }
        // regime
        let (rl, reg): (u64, u64) = if k >= 0 {
            let ones = (k + 1) as u64;
            (ones + 1, ((1u64 << ones) - 1) << 1)
        } else {
            let zeros = (-k) as u64;
            (zeros + 1, 1)
        };
        // string = reg (rl bits) | ex (es bits) | frac (l-1 bits)
        let fbits = l - 1;
        let frac = m.sub(&BigUint::from_u64(1).shl(fbits)); // drop hidden bit
        let head = BigUint::from_u64((reg << f.es) | ex);
        let string = head.shl(fbits).add(&frac);
        let total = rl + f.es as u64 + fbits;
        let keep = nb as u64;
        let (u, r, t) = if total > keep {
            let drop = total - keep;
            let u = string.shr(drop).to_u64().unwrap();
            let r = string.bit(drop - 1);
            let t = string.low_bits_nonzero(drop - 1) || sticky;
            (u, r, t)
        } else {
            assert!(
                !sticky,
                "inexact value without enough bits for a rounding decision"
            );
            (
                string.shl(keep - total).to_u64().unwrap(),
                false,
                false,
            )
        };
        let up = r && (t || (u & 1) == 1);
        let mut res = u + up as u64;
        let mut class = if !r && !t {
            RoundClass::Exact
        } else if r && !t {
            if up {
                RoundClass::TieUp
            } else {
                RoundClass::TieDown
            }
        } else if up {
            RoundClass::Up
        } else {
            RoundClass::Down
        };
        if res == 0 {
            res = 1;
            class = RoundClass::SatMin;
        }
        if res > f.maxpos() {
            res = f.maxpos();
            class = RoundClass::SatMax;
        }
        (fin(res), class)
    }

    // ---------------------------------------------------------------- posit encode #2
    /// Independent encoder: binary search over the monotone pattern sequence using only
    /// `decode` and exact comparison, then a comparison against the (n+1)-bit midpoint.
    pub fn encode_search(&self, f: Fmt) -> u64 {
        let neg = match self {
            Val::Zero => return 0,
            Val::NaR => return f.nar(),
            Val::Num { neg, .. } => *neg,
        };
        let x = self.abs();
        let maxpos = f.maxpos();
        // largest p in [1, maxpos] with decode(p) <= x, or 0 if none
        let (mut lo, mut hi) = (0u64, maxpos); // invariant: decode(lo) <= x (lo == 0 means "none yet")
        while lo < hi {
            let mid = lo + (hi - lo + 1) / 2;
            if Val::decode(f, mid).cmp_mag(&x) != Ordering::Greater {
                lo = mid;
            } else {
                hi = mid - 1;
            }
        }
        let p = lo;
        let res = if p == 0 {
            1
        } else if p == maxpos {
            maxpos
        } else if Val::decode(f, p).cmp_mag(&x) == Ordering::Equal {
            p
        } else {
            let f1 = Fmt {
                n: f.n + 1,
                es: f.es,
            };
            let mid = Val::decode(f1, 2 * p + 1);
            match x.cmp_mag(&mid) {
                Ordering::Less => p,
                Ordering::Greater => p + 1,
                Ordering::Equal => {
                    if p & 1 == 0 {
                        p
                    } else {
                        p + 1
                    }
                }
            }
        };
        if neg {
            f.neg(res)
        } else {
            res
        }
    }

    // ---------------------------------------------------------------- IEEE encode (RNE), integers only
    /// (bits, exact) of the IEEE-754 binary64 nearest to the value; NaR -> canonical NaN
    pub fn to_f64_bits(&self) -> (u64, bool) {
        let (b, x) = self.to_ieee(11, 52);
        (b, x)
    }
    pub fn to_f32_bits(&self) -> (u32, bool) {
        let (b, x) = self.to_ieee(8, 23);
        (b as u32, x)
    }
    fn to_ieee(&self, ebits: u32, mbits: u32) -> (u64, bool) {
        let bias = (1i64 << (ebits - 1)) - 1;
        let emax = bias; // largest unbiased exponent
        let emin = 1 - bias; // smallest normal
        let (neg, m, e, sticky) = match self {
            Val::Zero => return (0, true),
            Val::NaR => {
                return (
                    (((1u64 << ebits) - 1) << mbits) | (1u64 << (mbits - 1)),
                    true,
                )
            }
            Val::Num { neg, m, e, sticky } => (*neg, m, *e, *sticky),
        };
        let sign = (neg as u64) << (ebits + mbits);
        let s = e + m.bits() as i64 - 1;
        // quantum exponent: value is rounded to a multiple of 2^q
        let q = if s < emin { emin - mbits as i64 } else { s - mbits as i64 };
        // integer significand = round(m * 2^(e-q))
        let (mut sig, exact) = if e >= q {
            (m.shl((e - q) as u64), !sticky)
        } else {
            let sh = (q - e) as u64;
            let ip = m.shr(sh);
            let half = m.bit(sh - 1);
            let rest = m.low_bits_nonzero(sh - 1) || sticky;
            let up = half && (rest || ip.bit(0));
            (
                if up { ip.add(&BigUint::from_u64(1)) } else { ip },
                !(half || rest),
            )
        };
        let mut qq = q;
        if sig.bits() > mbits as u64 + 1 {
            // carried into the next binade
            sig = sig.shr(1);
            qq += 1;
        }
        let sigu = sig.to_u64().unwrap();
        let unb = qq + mbits as i64; // exponent if normal
        if sigu >> mbits == 0 {
            // subnormal (or zero)
            return (sign | sigu, exact);
        }
        if unb > emax {
            return (sign | (((1u64 << ebits) - 1) << mbits), false);
        }
        let biased = (unb + bias) as u64;
        (
            sign | (biased << mbits) | (sigu & ((1u64 << mbits) - 1)),
            exact,
        )
    }

    // ---------------------------------------------------------------- quire image
    /// two's-complement fixed-point image with `frac_bits` fraction bits in `total_bits`
    /// bits, little-endian u64 limbs; None if the (exact) value does not fit or is not a
    /// multiple of 2^-frac_bits.
    pub fn to_fixed(&self, total_bits: u32, frac_bits: u32) -> Option<Vec<u64>> {
        let nl = ((total_bits + 63) / 64) as usize;
        match self {
            Val::Zero => Some(vec![0; nl]),
            Val::NaR => None,
            Val::Num { neg, m, e, sticky } => {
                assert!(!sticky);
                let sh = *e + frac_bits as i64;
                if sh < 0 {
                    // must be a multiple
                    if m.low_bits_nonzero((-sh) as u64) {
                        return None;
                    }
                }
                let mag = if sh >= 0 { m.shl(sh as u64) } else { m.shr((-sh) as u64) };
                // range: -2^(T-1) < v < 2^(T-1)   (the pattern 100..0 is NaR)
                if mag.bits() > (total_bits - 1) as u64 {
                    return None;
                }
                let mut limbs = mag.limbs().to_vec();
                limbs.resize(nl, 0);
                if *neg {
                    // two's complement
                    let mut carry = 1u128;
                    for l in limbs.iter_mut() {
                        let t = (!*l) as u128 + carry;
                        *l = t as u64;
                        carry = t >> 64;
                    }
                }
                if total_bits % 64 != 0 {
                    let top = nl - 1;
                    limbs[top] &= (1u64 << (total_bits % 64)) - 1;
                }
                Some(limbs)
            }
        }
    }
    /// inverse of `to_fixed` (pattern 100..0 -> NaR)
    pub fn from_fixed(limbs_le: &[u64], total_bits: u32, frac_bits: u32) -> Val {
        let nl = limbs_le.len();
        let mut l = limbs_le.to_vec();
        let topbit = (total_bits - 1) % 64;
        let neg = (l[nl - 1] >> topbit) & 1 == 1;
        if neg {
            // sign-extend then negate
            if topbit != 63 {
                l[nl - 1] |= !0u64 << (topbit + 1);
            }
            let mut carry = 1u128;
            for x in l.iter_mut() {
                let t = (!*x) as u128 + carry;
                *x = t as u64;
                carry = t >> 64;
            }
        }
        let m = BigUint::from_limbs_le(&l);
        if neg && m.bits() as u32 == total_bits {
            // only the pattern 100..0 negates to itself (magnitude 2^(T-1))
            // it is the NaR pattern
            return Val::NaR;
        }
        if neg && m.is_zero() {
            return Val::NaR;
        }
        Val::num(neg, m, -(frac_bits as i64))
    }

    pub fn describe(&self) -> String {
        match self {
            Val::Zero => "0".into(),
            Val::NaR => "NaR".into(),
            Val::Num { neg, m, e, sticky } => format!(
                "{}0x{}{}*2^{}",
                if *neg { "-" } else { "" },
                m.to_hex(),
                if *sticky { "+eps" } else { "" },
                e
            ),
        }
    }
}

#[derive(Clone, Copy)]
enum IntMode {
    Floor,
    Ceil,
    Trunc,
    NearestEven,
}

#[derive(Clone, Copy, Debug, PartialEq, Eq, Hash)]
#[repr(u8)]
pub enum RoundClass {
    Exact = 0,
    Down = 1,
    Up = 2,
    TieDown = 3,
    TieUp = 4,
    SatMax = 5,
    SatMin = 6,
    Zero = 7,
    NaR = 8,
}
pub const ROUND_CLASS_NAMES: [&str; 9] = [
    "exact", "round_down", "round_up", "tie_kept_even", "tie_bumped_to_even", "saturate_maxpos",
    "saturate_minpos", "zero", "nar",
];
