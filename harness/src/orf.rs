//! Oracle closure factories keyed by format (not by crate type), so that the 62 generic
//! instantiations share one compiled copy of each oracle.

use crate::fast::{self, IntMode, FV};
use crate::ops::{FastFn, SlowFn};
use crate::ops_fixed::{int_range, mask, sext};
use crate::orc;
use crate::val::{Fmt, Val};
use std::cmp::Ordering;

#[inline(always)]
fn fd(f: Fmt, a: u64) -> FV {
    fast::decode(f, a as u32)
}
#[inline(always)]
fn fe(f: Fmt, sh: u32, v: FV) -> (u64, u8) {
    let (b, c) = fast::encode_class(f, v);
    ((b as u64) << sh, c)
}

#[derive(Clone, Copy, PartialEq, Eq)]
pub enum Bin {
    Add,
    Sub,
    Mul,
    Div,
}

pub type Pair = (FastFn, SlowFn);

/// result left-shifted by `sh` (0 for fixed types, 32-N for generic ones)
pub fn bin(f: Fmt, sh: u32, op: Bin) -> Pair {
    (
        Box::new(move |x, y, _| {
            let (a, b) = (fd(f, x), fd(f, y));
            let v = match op {
                Bin::Add => fast::add(a, b),
                Bin::Sub => fast::add(a, fast::negate(b)),
                Bin::Mul => fast::mul(a, b),
                Bin::Div => fast::div(a, b),
            };
            fe(f, sh, v)
        }),
        Box::new(move |x, y, _| {
            Some(
                match op {
                    Bin::Add => orc::add(f, x, y),
                    Bin::Sub => orc::sub(f, x, y),
                    Bin::Mul => orc::mul(f, x, y),
                    Bin::Div => orc::div(f, x, y),
                } << sh,
            )
        }),
    )
}

/// mode 0: a*b+c, 1: a*b-c, 2: c-a*b
pub fn fma(f: Fmt, sh: u32, mode: u32) -> Pair {
    (
        Box::new(move |x, y, z| {
            let p = fast::mul(fd(f, x), fd(f, y));
            let c = fd(f, z);
            let v = match mode {
                0 => fast::add(p, c),
                1 => fast::add(p, fast::negate(c)),
                _ => fast::add(c, fast::negate(p)),
            };
            fe(f, sh, v)
        }),
        Box::new(move |x, y, z| Some(orc::fma(f, x, y, z, mode) << sh)),
    )
}

pub fn sqrt(f: Fmt, sh: u32) -> Pair {
    (
        Box::new(move |x, _, _| fe(f, sh, fast::sqrt(fd(f, x)))),
        Box::new(move |x, _, _| Some(orc::sqrt(f, x) << sh)),
    )
}

pub fn int_round(f: Fmt, sh: u32, mode: IntMode) -> Pair {
    (
        Box::new(move |x, _, _| fe(f, sh, fast::int_round(fd(f, x), mode))),
        Box::new(move |x, _, _| {
            let v = Val::decode(f, x);
            let r = match mode {
                IntMode::Floor => v.floor(),
                IntMode::Ceil => v.ceil(),
                IntMode::Trunc => v.trunc(),
                IntMode::NearestEven => v.round_even(),
            };
            Some(r.encode_bits(f) << sh)
        }),
    )
}

pub fn neg(f: Fmt, sh: u32) -> Pair {
    (
        Box::new(move |x, _, _| fe(f, sh, fast::negate(fd(f, x)))),
        Box::new(move |x, _, _| Some(Val::decode(f, x).neg().encode_bits(f) << sh)),
    )
}

pub fn identity(sh: u32) -> Pair {
    (Box::new(move |x, _, _| (x << sh, 255)), Box::new(move |x, _, _| Some(x << sh)))
}

pub fn cmp_pred(f: Fmt, pred: fn(Ordering) -> bool) -> Pair {
    (
        Box::new(move |x, y, _| (pred(fast::cmp(fd(f, x), fd(f, y))) as u64, 255)),
        Box::new(move |x, y, _| Some(pred(orc::cmp(f, x, y)) as u64)),
    )
}

pub fn cmp_code(f: Fmt) -> Pair {
    (
        Box::new(move |x, y, _| (orc::ord_code(fast::cmp(fd(f, x), fd(f, y))), 255)),
        Box::new(move |x, y, _| Some(orc::ord_code(orc::cmp(f, x, y)))),
    )
}

pub fn zero_nar_flags(f: Fmt) -> SlowFn {
    Box::new(move |x, _, _| {
        let v = Val::decode(f, x);
        Some((v.is_zero() as u64) | ((v.is_nar() as u64) << 1))
    })
}

pub fn from_f32(f: Fmt, sh: u32) -> Pair {
    (
        Box::new(move |x, _, _| fe(f, sh, fast::from_f32_bits(x as u32))),
        Box::new(move |x, _, _| Some(orc::from_f32(f, x as u32) << sh)),
    )
}
pub fn from_f64(f: Fmt, sh: u32) -> Pair {
    (
        Box::new(move |x, _, _| fe(f, sh, fast::from_f64_bits(x))),
        Box::new(move |x, _, _| Some(orc::from_f64(f, x) << sh)),
    )
}
pub fn to_f64(f: Fmt) -> Pair {
    (
        Box::new(move |x, _, _| (fast::to_f64_bits(fd(f, x)).0, 255)),
        Box::new(move |x, _, _| Some(Val::decode(f, x).to_f64_bits().0)),
    )
}
pub fn to_f32(f: Fmt) -> Pair {
    (
        Box::new(move |x, _, _| (fast::to_f32_bits(fd(f, x)).0 as u64, 255)),
        Box::new(move |x, _, _| Some(Val::decode(f, x).to_f32_bits().0 as u64)),
    )
}
pub fn from_int(f: Fmt, sh: u32, bits: u32, signed: bool) -> Pair {
    (
        Box::new(move |x, _, _| {
            let v = if signed { sext(x, bits) } else { x as i128 };
            fe(f, sh, fast::from_i128(v))
        }),
        Box::new(move |x, _, _| {
            let v = if signed { sext(x, bits) } else { x as i128 };
            Some(orc::from_int(f, v) << sh)
        }),
    )
}
pub fn to_int(f: Fmt, bits: u32, signed: bool) -> Pair {
    (
        Box::new(move |x, _, _| {
            let (lo, hi) = int_range(bits, signed);
            match fast::to_int_clamped(fd(f, x), lo, hi) {
                Some(v) => ((v as u64) & mask(bits), 255),
                None => (u64::MAX - 7, 254), // NaR: property silent -> slow path says Skip
            }
        }),
        Box::new(move |x, _, _| {
            let (lo, hi) = int_range(bits, signed);
            orc::to_int(f, x, lo, hi).map(|v| (v as u64) & mask(bits))
        }),
    )
}
/// re-encode a `from` pattern in format `to`, result shifted left by `sh`
pub fn convert(from: Fmt, to: Fmt, sh: u32) -> Pair {
    (
        Box::new(move |x, _, _| fe(to, sh, fd(from, x))),
        Box::new(move |x, _, _| Some(orc::convert(from, to, x) << sh)),
    )
}
