//! Deterministic generators written here (no dependence on `rand`'s algorithms).

#[derive(Clone)]
pub struct Rng {
    s: [u64; 4],
}

pub fn splitmix(x: &mut u64) -> u64 {
    *x = x.wrapping_add(0x9E37_79B9_7F4A_7C15);
    let mut z = *x;
    z = (z ^ (z >> 30)).wrapping_mul(0xBF58_476D_1CE4_E5B9);
    z = (z ^ (z >> 27)).wrapping_mul(0x94D0_49BB_1331_11EB);
    z ^ (z >> 31)
}

pub fn mix64(mut z: u64) -> u64 {
    z = (z ^ (z >> 30)).wrapping_mul(0xBF58_476D_1CE4_E5B9);
    z = (z ^ (z >> 27)).wrapping_mul(0x94D0_49BB_1331_11EB);
    z ^ (z >> 31)
}

impl Rng {
    pub fn new(seed: u64, stream: u64) -> Rng {
        let mut x = seed ^ stream.wrapping_mul(0xD605_BBB5_8C8A_BBC9) ^ 0x5851_F42D_4C95_7F2D;
        let s = [splitmix(&mut x), splitmix(&mut x), splitmix(&mut x), splitmix(&mut x)];
        Rng { s }
    }
    /// xoshiro256**
    #[inline]
    pub fn next(&mut self) -> u64 {
        let r = self.s[1].wrapping_mul(5).rotate_left(7).wrapping_mul(9);
        let t = self.s[1] << 17;
        self.s[2] ^= self.s[0];
        self.s[3] ^= self.s[1];
        self.s[1] ^= self.s[2];
        self.s[0] ^= self.s[3];
        self.s[2] ^= t;
        self.s[3] = self.s[3].rotate_left(45);
        r
    }
    /// uniform in 0..n (n > 0); slight modulo bias is irrelevant here
    #[inline]
    pub fn below(&mut self, n: u64) -> u64 {
        ((self.next() as u128 * n as u128) >> 64) as u64
    }
    #[inline]
    pub fn range(&mut self, lo: i64, hi_incl: i64) -> i64 {
        lo + self.below((hi_incl - lo + 1) as u64) as i64
    }
    #[inline]
    pub fn chance(&mut self, num: u64, den: u64) -> bool {
        self.below(den) < num
    }
}
