//! Hostile structured generators (DESIGN §4.2). All are deterministic functions of the Rng state.

use crate::fast;
use crate::rng::Rng;
use crate::val::{Fmt, Val};

/// what one input word of an operation is
#[derive(Clone, Copy, Debug, PartialEq, Eq)]
pub enum Kind {
    /// n-bit posit pattern, right-aligned
    Pat(Fmt),
    /// f32 bit pattern; the Fmt is the posit format whose boundaries are interesting
    F32(Fmt),
    /// f64 bit pattern
    F64(Fmt),
    /// integer of `bits` bits (two's complement if signed), right-aligned, zero-extended
    Int { bits: u32, signed: bool, f: Fmt },
    /// small range 0..n
    Small(u64),
}

impl Kind {
    pub fn bits(self) -> u32 {
        match self {
            Kind::Pat(f) => f.n,
            Kind::F32(_) => 32,
            Kind::F64(_) => 64,
            Kind::Int { bits, .. } => bits,
            Kind::Small(n) => 64 - (n.max(2) - 1).leading_zeros(),
        }
    }
    /// number of distinct values of this kind (None if 2^64)
    pub fn cardinality(self) -> Option<u64> {
        match self {
            Kind::Small(n) => Some(n),
            k => {
                let b = k.bits();
                if b >= 64 {
                    None
                } else {
                    Some(1u64 << b)
                }
            }
        }
    }
    pub fn name(self) -> String {
        match self {
            Kind::Pat(f) => format!("posit<{},{}>", f.n, f.es),
            Kind::F32(_) => "f32".into(),
            Kind::F64(_) => "f64".into(),
            Kind::Int { bits, signed, .. } => format!("{}{}", if signed { "i" } else { "u" }, bits),
            Kind::Small(n) => format!("0..{}", n),
        }
    }
}

// ---------------------------------------------------------------------------- posit patterns

/// constants hard-coded in the crate's source (thresholds of special-cased branches),
/// as right-aligned patterns of the format they belong to
fn source_constants(f: Fmt) -> &'static [u64] {
    match (f.n, f.es) {
        (32, 2) => &[
            0x7FAF_FFFF, 0x7FB0_0000, 0x7E80_0000, 0x7FFF_B000, 0x7FFF_9FFF, 0x4000_0000, 0x3800_0000,
            0x4400_0000, 0x4800_0000, 0x4A00_0000, 0x7F80_0000, 0x7FC0_0000, 0x7FFF_FFFE, 0x0000_0002,
            0x6000_0000, 0x2000_0000, 0x00A0_0000, 0x6729_7707, 0x6da0_0000, 0x7780_0000, 0x5680_0000,
            0x7D80_0000, 0x7FD8_0000, 0x3000_0000, 0x3400_0000,
        ],
        (16, 1) => &[
            28846, 36690, 0x7A00, 0x7C00, 0x7D00, 0x7D40, 0x7E00, 0x4000, 0x3000, 0x5000, 0x6000, 0x7FFE, 2,
            0x6800, 0x7000, 0x7800, 0x0100, 0x2000, 0x3800, 0x4800, 0x5800, 0x6400, 0x1000,
        ],
        (8, 0) => &[0x40, 0x20, 0x60, 0x70, 0x78, 0x7C, 0x7E, 0x7F, 1, 2, 0x50, 0x30, 0x10, 0x08],
        _ => &[],
    }
}

/// one hostile posit pattern
pub fn pat(r: &mut Rng, f: Fmt) -> u64 {
    let n = f.n;
    let mask = f.mask();
    let nb = n - 1;
    let c = r.below(16);
    let p = match c {
        0..=3 => r.next() & mask, // uniform bits
        4..=8 => {
            // regime-stratified: regime run length uniform in 1..=nb, either direction, random tail
            let run = r.range(1, nb as i64) as u32;
            let ones = r.chance(1, 2);
            let mut body: u64 = if ones { (1u64 << run) - 1 } else { 0 };
            let rest = nb - run;
            if rest > 0 {
                // terminator + random tail
                body <<= rest;
                let term: u64 = if ones { 0 } else { 1 };
                body |= term << (rest - 1);
                if rest > 1 {
                    let mut tail = r.next() & ((1u64 << (rest - 1)) - 1);
                    // short fraction: random number of trailing zero bits
                    if r.chance(1, 2) {
                        let tz = r.below(rest as u64) as u32;
                        tail &= !((1u64 << tz) - 1);
                        if r.chance(1, 4) {
                            // ... plus a tiny tail (see the short-fraction class below)
                            tail = tail.wrapping_add(r.range(-2, 2) as u64) & ((1u64 << (rest - 1)) - 1);
                        }
                    }
                    body |= tail;
                }
            } else if !ones {
                body = 1; // all zeros would be the zero pattern; use minpos
            }
            let neg = r.chance(1, 2);
            if neg {
                f.neg(body)
            } else {
                body
            }
        }
        9..=10 => {
            // boundary set +- a few ulps
            let maxpos = f.maxpos();
            let one = 1u64 << (n - 2);
            let base = match r.below(12) {
                0 => 0,
                1 => f.nar(),
                2 => 1,
                3 => maxpos,
                4 => one,
                5 => one + (one >> 1).max(1), // ~2 (exact for es>=1) or 1.5
                6 => one >> 1,
                7 => f.neg(1),
                8 => f.neg(maxpos),
                9 => f.neg(one),
                _ => {
                    let sc = source_constants(f);
                    if sc.is_empty() {
                        r.next() & mask
                    } else {
                        let v = sc[r.below(sc.len() as u64) as usize];
                        if r.chance(1, 2) {
                            f.neg(v)
                        } else {
                            v
                        }
                    }
                }
            };
            let d = r.range(-3, 3);
            base.wrapping_add(d as u64) & mask
        }
        11..=13 => {
            // short fraction: uniform pattern with trailing zeros (exact results, exact ties)
            // and, a third of the time, the same plus or minus 1..3 units of the last place: a
            // value with few significant bits followed by a long run of zeros (ones) and a tiny
            // tail - "tie + epsilon" for every operation that narrows or rounds to an integer
            let tz = r.below(nb as u64) as u32;
            let v = (r.next() & mask) & !((1u64 << tz) - 1);
            if r.chance(1, 3) {
                v.wrapping_add(r.range(-3, 3) as u64) & mask
            } else {
                v
            }
        }
        _ => {
            // powers of two and their neighbours
            let s = r.range(-(((nb - 1) as i64) << f.es), ((nb - 1) as i64) << f.es);
            let v = Val::pow2(s).encode_bits(f);
            let d = r.range(-2, 2);
            let v = v.wrapping_add(d as u64) & mask;
            if r.chance(1, 2) {
                f.neg(v)
            } else {
                v
            }
        }
    };
    p & mask
}

// ---------------------------------------------------------------------------- constructed rounding traps

/// how many operand tuples were produced by the constructed-trap generators in this process
pub static TRAPS_FUSED: std::sync::atomic::AtomicU64 = std::sync::atomic::AtomicU64::new(0);
pub static TRAPS_PRODUCT: std::sync::atomic::AtomicU64 = std::sync::atomic::AtomicU64::new(0);
thread_local! {
    static TRAP_LOCAL: std::cell::Cell<(u64, u64)> = const { std::cell::Cell::new((0, 0)) };
}
fn count_trap(fused: bool) {
    // batched so that the shared counters are touched once per 4096 traps
    TRAP_LOCAL.with(|c| {
        let (mut a, mut b) = c.get();
        if fused {
            a += 1;
            if a == 4096 {
                TRAPS_FUSED.fetch_add(a, std::sync::atomic::Ordering::Relaxed);
                a = 0;
            }
        } else {
            b += 1;
            if b == 4096 {
                TRAPS_PRODUCT.fetch_add(b, std::sync::atomic::Ordering::Relaxed);
                b = 0;
            }
        }
        c.set((a, b));
    });
}

/// inverse of an odd number modulo 2^64 (Newton iteration)
fn inv_pow2(a: u64) -> u64 {
    let mut x = a; // correct to 3 bits
    for _ in 0..6 {
        x = x.wrapping_mul(2u64.wrapping_sub(a.wrapping_mul(x)));
    }
    x
}

fn bitlen(x: u64) -> u32 {
    64 - x.leading_zeros()
}

/// the pattern of (+-) sig * 2^(scale - (bitlen(sig) - 1)) if that value is exactly representable
fn exact_pattern(f: Fmt, neg: bool, scale: i32, sig: u64) -> Option<u64> {
    if sig == 0 {
        return None;
    }
    let num = fast::Num { neg, scale, m: (sig as u128) << (128 - bitlen(sig)), sticky: false };
    let p = fast::encode(f, fast::FV::Num(num));
    match fast::decode(f, p) {
        fast::FV::Num(d) if d.scale == num.scale && d.m == num.m && d.neg == num.neg => Some(p as u64),
        _ => None,
    }
}

/// small odd residue
fn small_odd(r: &mut Rng) -> u64 {
    match r.below(6) {
        0..=2 => 1,
        3 => 3,
        4 => (1 << r.range(2, 4)) - 1,
        _ => (r.below(16) | 1),
    }
}

/// widest significand (hidden bit included) a value of this scale can carry in format f (0: none)
pub fn avail_width(f: Fmt, scale: i32) -> u32 {
    let k = scale.div_euclid(1 << f.es);
    let rl = if k >= 0 { k + 2 } else { -k + 1 };
    let fb = f.n as i32 - 1 - rl - f.es as i32;
    if fb < 0 {
        0
    } else {
        fb as u32 + 1
    }
}

/// a scale for a constructed operand: mostly short regimes (most fraction bits), sometimes long
fn trap_scale(r: &mut Rng, f: Fmt) -> i32 {
    let e = r.below(1 << f.es) as i32;
    let kmax = f.n as i64 - 4;
    let k = match r.below(4) {
        0..=1 => r.range(-1, 0),
        2 => r.range(-4, 3),
        _ => r.range(-kmax, kmax),
    } as i32;
    k * (1 << f.es) + e
}

/// A fused triple (a, b, c) built so that the exact value of c +- a*b is a rounding boundary (a
/// posit value or a midpoint) plus or minus a *tiny* residue. Two constructions, both with a
/// modular inverse:
///  1. zero-run product: A*B = H*2^m +- L with a long run of zeros (or ones) between H and the
///     small L; c = C*2^tb is aligned at or just above the bottom of H, with C at the carry edge,
///     at the cancellation edge, few-bit, or random;
///  2. addend tail: c reaches j bits below the last bit of the product and carries the tiny
///     residue in those bits, while A*B is solved so that product + upper part of c is exactly a
///     tie / a posit value / one below at the precision of the result.
/// Uniform or magnitude-structured sampling meets such triples with probability 2^-35 ... 2^-60;
/// defects in the handling of the very last bits of the working significand (a sticky bit
/// dropped by a carry shift, a missing borrow, a sticky mask one bit short) only show there.
pub fn fused_trap(r: &mut Rng, f: Fmt) -> Option<[u64; 3]> {
    if f.n > 32 || f.n < 10 {
        return None;
    }
    let full = f.n - 2 - f.es; // widest significand of the format
    for _ in 0..128 {
        // the addend first: its scale (mostly a short regime) and width
        let sc = trap_scale(r, f);
        let wc_max = avail_width(f, sc);
        if wc_max < 3 {
            continue;
        }
        let wc = if r.chance(2, 3) { wc_max - r.below(2).min(wc_max as u64 - 3) as u32 } else { r.range(3, wc_max as i64) as u32 };
        // how far the top bit of c lies above the top bit of the product
        let g: i32 = if r.chance(1, 2) { r.range(-2, 16) } else { r.range(-(wc as i64) - 30, 60) } as i32;
        // split the scale of the product between a and b
        let s = sc - g;
        let d = match r.below(4) {
            0 => 0,
            1 => r.range(-2, 2),
            2 => r.range(-8, 8),
            _ => r.range(-40, 40),
        } as i32;
        let sa = s.div_euclid(2) + d;
        let sb = s - sa;
        let (wa_max, wb_max) = (avail_width(f, sa), avail_width(f, sb));
        if wa_max < 3 || wb_max < 3 {
            continue;
        }
        let wa = wa_max - r.below(3).min(wa_max as u64 - 3) as u32;
        let a_sig = (1u64 << (wa - 1)) | (r.next() & ((1u64 << (wa - 1)) - 1)) | 1;
        let inv = inv_pow2(a_sig);
        let wb_t = wb_max - r.below(2).min(wb_max as u64 - 3) as u32;
        // position of c's last bit in units of the product's last bit
        let tb: i32 = g - wc as i32 + wa as i32 + wb_t as i32 - 1;
        let (b_sig, c_sig): (u64, u64);
        if tb >= 2 {
            // ---- construction 1: zero-run product, c aligned near the bottom of H
            let top_m = (wa + wb_t) as i64 - 2;
            let m = match r.below(8) {
                0..=1 => tb as i64 - 1,
                2..=3 => tb as i64,
                4 => tb as i64 + 1,
                5 => tb as i64 + 2,
                _ => r.range((tb as i64 - 1).min(top_m), top_m),
            };
            if m < 3 || m > top_m {
                continue;
            }
            let m = m as u32;
            let l = small_odd(r);
            if bitlen(l) + 2 > m || bitlen(l) as i32 >= tb {
                continue;
            }
            let minus = r.chance(1, 3);
            let mm = (1u64 << m) - 1;
            let resid = if minus { (1u64 << m).wrapping_sub(l) & mm } else { l };
            let b0 = inv.wrapping_mul(resid) & mm;
            b_sig = if m >= wb_t {
                // the whole of B is determined: it has to come out with exactly wb_t bits
                if bitlen(b0) != wb_t {
                    continue;
                }
                b0
            } else {
                let t = (1u64 << (wb_t - m - 1)) | (r.next() & ((1u64 << (wb_t - m - 1)) - 1));
                b0 | (t << m)
            };
            let p = (a_sig as u128) * (b_sig as u128);
            let h = ((p >> m) as u64) + if minus { 1 } else { 0 };
            let tbu = tb as u32;
            let hq: u128 = if tbu <= m { (h as u128) << (m - tbu) } else { (h as u128) >> (tbu - m) };
            let top = 1u128 << wc;
            let c: u128 = match r.below(6) {
                0..=1 => (1u128 << (wc - 1)) | (r.next() as u128 & ((1u128 << (wc - 1)) - 1)),
                2..=3 => {
                    if hq >= top {
                        continue;
                    }
                    (top - hq).wrapping_add(r.range(-2, 6) as i128 as u128)
                }
                4 => hq.wrapping_add(r.range(-3, 3) as i128 as u128),
                _ => (1u128 << (wc - 1)).wrapping_add(r.below(4) as u128),
            };
            if c < (1u128 << (wc - 1)) || c >= top {
                continue;
            }
            c_sig = c as u64;
        } else if tb < 0 && ((-tb) as u32) < wc {
            // ---- construction 2: c reaches j bits below the product and carries the residue there
            let j = (-tb) as u32;
            let z = r.below(2) as i32;
            let wr = avail_width(f, sa + sb + 1 - z + if g > 0 { g } else { 0 });
            if wr == 0 {
                continue;
            }
            let t = (wa + wb_t) as i32 - z - wr as i32 - 1 + if g > 0 { g } else { 0 }; // assumed tie bit
            if t < 1 || (t + 1) as u32 > wb_t {
                continue;
            }
            let t = t as u32;
            let clow: u64 = match r.below(4) {
                0..=1 => 1,
                2 => (1u64 << j) - 1,
                _ => (r.next() & ((1u64 << j) - 1)) | 1,
            };
            let chigh = (1u64 << (wc - j - 1)) | (r.next() & ((1u64 << (wc - j - 1)) - 1));
            let want: u64 = match r.below(5) {
                0..=1 => 1u64 << t,         // exact tie, then the tail
                2 => (1u64 << t) - 1,       // one below the tie
                3 => 0,                     // exact posit value, then the tail
                _ => (1u64 << (t + 1)) - 1, // one below a posit value
            };
            let mm = (1u64 << (t + 1)) - 1;
            let resid = if r.chance(1, 2) { want.wrapping_sub(chigh) } else { want.wrapping_add(chigh) } & mm;
            if resid == 0 {
                continue;
            }
            let b0 = inv.wrapping_mul(resid) & mm;
            let fill = wb_t - (t + 1);
            b_sig = if fill == 0 {
                if bitlen(b0) != wb_t {
                    continue;
                }
                b0
            } else {
                let tbits = (1u64 << (fill - 1)) | (r.next() & ((1u64 << (fill - 1)) - 1));
                b0 | (tbits << (t + 1))
            };
            c_sig = (chigh << j) | clow;
        } else {
            continue;
        }
        debug_assert!(bitlen(b_sig) == wb_t && bitlen(c_sig) == wc && wc <= full);
        let a = exact_pattern(f, r.chance(1, 2), sa, a_sig);
        let b = exact_pattern(f, r.chance(1, 2), sb, b_sig);
        let c = exact_pattern(f, r.chance(1, 2), sc, c_sig);
        if let (Some(a), Some(b), Some(c)) = (a, b, c) {
            count_trap(true);
            return Some(if r.chance(1, 2) { [a, b, c] } else { [b, a, c] });
        }
    }
    None
}

/// A multiplication partner for `a` built with a modular inverse so that the exact product is a
/// rounding midpoint (for a short result regime) plus or minus a tiny residue.
fn product_trap_partner(r: &mut Rng, f: Fmt, a: u64) -> Option<u64> {
    if f.n > 32 || f.n < 10 {
        return None;
    }
    let es = f.es as i32;
    let maxw = f.n as i32 - 2 - es;
    if maxw < 6 {
        return None;
    }
    let mw = maxw as u32;
    let fast::FV::Num(x) = fast::decode(f, a as u32) else { return None };
    let sig = (x.m >> 64) as u64; // at most 32 significant bits
    let ao = sig >> sig.trailing_zeros();
    let wao = bitlen(ao);
    if wao < 5 {
        return None;
    }
    let z = r.below(2) as u32;
    let t = wao - 1 - z; // assumed position of the tie bit in Ao * B
    if t < 3 {
        return None;
    }
    let l = small_odd(r);
    if bitlen(l) >= t {
        return None;
    }
    let modulus_bits = t + 1;
    let mm = (1u64 << modulus_bits) - 1;
    let resid = if r.chance(1, 2) { (1u64 << t) + l } else { (1u64 << t) - l };
    let b0 = inv_pow2(ao).wrapping_mul(resid) & mm;
    if modulus_bits > mw {
        return None;
    }
    let fill = mw - modulus_bits;
    let b_sig = if fill == 0 {
        b0
    } else {
        let tbits = (1u64 << (fill - 1)) | (r.next() & ((1u64 << (fill - 1)) - 1));
        b0 | (tbits << modulus_bits)
    };
    if b_sig < 3 {
        return None;
    }
    let (lo, hi) = (-(1i32 << es), (1i32 << es) - 1);
    let sb = r.range(lo as i64, hi as i64) as i32;
    exact_pattern(f, r.chance(1, 2), sb, b_sig)
}

/// a partner for `a` that stresses alignment, cancellation and reciprocity
pub fn partner(r: &mut Rng, f: Fmt, a: u64) -> u64 {
    let mask = f.mask();
    if r.chance(1, 12) {
        if let Some(b) = product_trap_partner(r, f, a) {
            count_trap(false);
            return b;
        }
    }
    match r.below(8) {
        0..=2 => pat(r, f),
        3 => {
            // +-a +- j ulps (catastrophic cancellation in add/sub)
            let j = r.range(-4, 4);
            let v = a.wrapping_add(j as u64) & mask;
            if r.chance(1, 2) {
                f.neg(v)
            } else {
                v
            }
        }
        4..=5 => {
            // a * 2^j: alignment-shift extremes
            if f.n > 32 {
                return pat(r, f);
            }
            let av = fast::decode(f, a as u32);
            match av {
                fast::FV::Num(mut x) => {
                    let lim = 70i64;
                    let j = r.range(-lim, lim);
                    x.scale += j as i32;
                    if r.chance(1, 2) {
                        x.neg = !x.neg;
                    }
                    let v = fast::encode(f, fast::FV::Num(x)) as u64;
                    v.wrapping_add(r.range(-1, 1) as u64) & mask
                }
                _ => pat(r, f),
            }
        }
        6 => {
            // ~ 1/a
            if f.n > 32 {
                return pat(r, f);
            }
            let one = 1u32 << (f.n - 2);
            let v = fast::op_div(f, one, a as u32) as u64;
            v.wrapping_add(r.range(-2, 2) as u64) & mask
        }
        _ => {
            // same regime as a, different fraction
            let nb = f.n - 1;
            let keep = r.below(nb as u64) as u32;
            let lowmask = (1u64 << (nb - keep).min(63)) - 1;
            (a & !lowmask) | (r.next() & lowmask & mask)
        }
    }
}

/// third operand for fused operations: close to -(a*b) so that product and addend nearly cancel
pub fn fused_addend(r: &mut Rng, f: Fmt, a: u64, b: u64) -> u64 {
    let mask = f.mask();
    match r.below(8) {
        0..=1 => pat(r, f),
        2 => partner(r, f, a),
        _ => {
            if f.n > 32 {
                return pat(r, f);
            }
            let p = fast::op_mul(f, a as u32, b as u32) as u64;
            let j = match r.below(4) {
                0 => 0,
                1 => r.range(-2, 2),
                2 => r.range(-64, 64),
                _ => r.range(-100000, 100000),
            };
            let v = p.wrapping_add(j as u64) & mask;
            if r.chance(3, 4) {
                f.neg(v)
            } else {
                v
            }
        }
    }
}

// ---------------------------------------------------------------------------- floats

/// posit value or midpoint of format f (as exact Val), chosen hostile
fn posit_boundary(r: &mut Rng, f: Fmt) -> Val {
    let p = pat(r, f);
    if r.chance(1, 2) {
        Val::decode(f, p)
    } else {
        // midpoint between p and its successor: the (n+1)-bit pattern 2p+1
        let f1 = Fmt { n: f.n + 1, es: f.es };
        let v = Val::decode(f1, ((p << 1) | 1) & f1.mask());
        v
    }
}

pub fn f64_bits(r: &mut Rng, f: Fmt) -> u64 {
    match r.below(16) {
        0..=2 => r.next(),
        3..=5 => {
            // exponent-stratified around the posit range (and far outside sometimes)
            let maxs = ((f.n as i64 - 2) << f.es) + 4;
            let e = if r.chance(1, 8) { r.range(-1074, 1023) } else { r.range(-maxs, maxs) };
            let sign = r.below(2) << 63;
            let mant = match r.below(4) {
                0 => 0,
                1 => r.next() & ((1u64 << 52) - 1),
                2 => (r.next() & ((1u64 << 52) - 1)) & !((1u64 << r.below(52)) - 1),
                _ => ((1u64 << 52) - 1) ^ (r.next() & ((1u64 << r.below(52)) - 1)),
            };
            if e < -1022 {
                // subnormal with the leading bit at position e+1074
                let pos = (e + 1074) as u64;
                sign | (1u64 << pos) | (mant & ((1u64 << pos) - 1))
            } else {
                sign | (((e + 1023) as u64) << 52) | mant
            }
        }
        6..=11 => {
            // posit values and midpoints of the target, +- a few float ulps
            let v = posit_boundary(r, f);
            let (b, _) = v.to_f64_bits();
            let d = match r.below(8) {
                0..=2 => 0,
                3..=4 => 1,
                5..=6 => -1,
                _ => r.range(-3, 3),
            };
            // stay on the same sign / avoid walking into NaN
            let mag = (b & !(1u64 << 63)).wrapping_add(d as u64) & !(1u64 << 63);
            (b & (1u64 << 63)) | mag
        }
        12 => {
            // specials
            match r.below(10) {
                0 => 0,
                1 => 1u64 << 63,
                2 => 0x7ff0_0000_0000_0000,
                3 => 0xfff0_0000_0000_0000,
                4 => 0x7ff8_0000_0000_0000,
                5 => 0xfff8_0000_0000_0001,
                6 => 0x7ff0_0000_0000_0001,
                7 => 1,
                8 => 0x000f_ffff_ffff_ffff,
                _ => 0x7fef_ffff_ffff_ffff,
            }
        }
        13 => {
            // all subnormal exponents
            let pos = r.below(52);
            (r.below(2) << 63) | (1u64 << pos) | (r.next() & ((1u64 << pos) - 1))
        }
        _ => {
            // short mantissa values (exactly representable in posits; exact ties after +-)
            let e = r.range(-40, 40);
            let keep = r.below(30);
            let mant = (r.next() & ((1u64 << 52) - 1)) & !((1u64 << (52 - keep)) - 1);
            (r.below(2) << 63) | (((e + 1023) as u64) << 52) | mant
        }
    }
}

pub fn f32_bits(r: &mut Rng, f: Fmt) -> u64 {
    (match r.below(16) {
        0..=2 => r.next() as u32,
        3..=5 => {
            let maxs = (((f.n as i64 - 2) << f.es) + 4).min(127);
            let e = if r.chance(1, 8) { r.range(-149, 127) } else { r.range(-maxs, maxs) };
            let sign = (r.below(2) as u32) << 31;
            let mant = match r.below(4) {
                0 => 0,
                1 => (r.next() as u32) & 0x7f_ffff,
                2 => ((r.next() as u32) & 0x7f_ffff) & !((1u32 << r.below(23)) - 1),
                _ => 0x7f_ffff ^ ((r.next() as u32) & ((1u32 << r.below(23)) - 1)),
            };
            if e < -126 {
                let pos = (e + 149) as u32;
                sign | (1u32 << pos) | (mant & ((1u32 << pos) - 1))
            } else {
                sign | (((e + 127) as u32) << 23) | mant
            }
        }
        6..=11 => {
            let v = posit_boundary(r, f);
            let (b, _) = v.to_f32_bits();
            let d = match r.below(8) {
                0..=2 => 0,
                3..=4 => 1,
                5..=6 => -1,
                _ => r.range(-3, 3),
            };
            let mag = (b & 0x7fff_ffff).wrapping_add(d as u32) & 0x7fff_ffff;
            (b & 0x8000_0000) | mag
        }
        12 => match r.below(10) {
            0 => 0,
            1 => 0x8000_0000,
            2 => 0x7f80_0000,
            3 => 0xff80_0000,
            4 => 0x7fc0_0000,
            5 => 0xffc0_0001,
            6 => 0x7f80_0001,
            7 => 1,
            8 => 0x007f_ffff,
            _ => 0x7f7f_ffff,
        },
        13 => {
            let pos = r.below(23) as u32;
            ((r.below(2) as u32) << 31) | (1u32 << pos) | ((r.next() as u32) & ((1u32 << pos) - 1))
        }
        _ => {
            let e = r.range(-40, 40);
            let keep = r.below(23) as u32;
            let mant = ((r.next() as u32) & 0x7f_ffff) & !((1u32 << (23 - keep)) - 1);
            ((r.below(2) as u32) << 31) | (((e + 127) as u32) << 23) | mant
        }
    }) as u64
}

// ---------------------------------------------------------------------------- integers

pub fn int_bits(r: &mut Rng, bits: u32, signed: bool, f: Fmt) -> u64 {
    let mask = if bits == 64 { u64::MAX } else { (1u64 << bits) - 1 };
    let v: u64 = match r.below(10) {
        0..=1 => r.next(),
        2..=3 => {
            // powers of two +- {0,1,2}
            let p = r.below(bits as u64);
            (1u64 << p).wrapping_add(r.range(-2, 2) as u64)
        }
        4..=5 => {
            // k significant bits shifted to every position
            let k = r.range(1, bits.min(34) as i64) as u32;
            let top = (r.next() | (1u64 << 63)) >> (64 - k);
            let top = top | 1;
            let sh = r.below((bits - k + 1) as u64);
            top << sh
        }
        6 => {
            // extremes
            match r.below(8) {
                0 => 0,
                1 => 1,
                2 => mask,
                3 => mask >> 1,           // signed MAX
                4 => (mask >> 1) + 1,     // signed MIN
                5 => (mask >> 1) + 2,     // signed MIN+1
                6 => mask - 1,
                _ => (mask >> 1) - 1,
            }
        }
        7..=8 => {
            // rounding boundary neighbourhoods of the target format: midpoints between
            // neighbouring posits inside one binade [2^s, 2^(s+1)), biased to the binade's ends
            let f1 = Fmt { n: f.n + 1, es: f.es };
            let lim = (bits as i64).min(((f.n as i64 - 2) << f.es) + 1);
            let s = r.range(0, lim);
            let lo = Val::pow2(s).encode_bits(f);
            let hi = Val::pow2(s + 1).encode_bits(f).max(lo + 1);
            let span = hi - lo;
            let off = match r.below(4) {
                0 => r.below(4).min(span - 1),
                1 => span - 1 - r.below(4).min(span - 1),
                _ => r.below(span),
            };
            let p = (lo + off).min(f.maxpos() - 1);
            let mid = Val::decode(f1, (p << 1) | 1);
            let iv = mid.to_int_rne_clamped(0, u64::MAX as i128).unwrap_or(0) as u64;
            iv.wrapping_add(r.range(-2, 2) as u64)
        }
        _ => {
            // small magnitudes
            r.below(1 << 12)
        }
    };
    let v = if signed && r.chance(1, 2) { v.wrapping_neg() } else { v };
    v & mask
}

pub fn one(r: &mut Rng, k: Kind) -> u64 {
    match k {
        Kind::Pat(f) => pat(r, f),
        Kind::F32(f) => f32_bits(r, f),
        Kind::F64(f) => f64_bits(r, f),
        Kind::Int { bits, signed, f } => int_bits(r, bits, signed, f),
        Kind::Small(n) => r.below(n),
    }
}

/// a full hostile input tuple for an operation with the given input kinds
pub fn tuple(r: &mut Rng, kinds: &[Kind], out: &mut [u64; 3]) {
    *out = [0; 3];
    if kinds.is_empty() {
        return;
    }
    if kinds.len() == 3 {
        if let (Kind::Pat(f0), Kind::Pat(f1), Kind::Pat(f2)) = (kinds[0], kinds[1], kinds[2]) {
            if f0 == f1 && f1 == f2 && r.chance(1, 4) {
                if let Some(t) = fused_trap(r, f0) {
                    *out = t;
                    return;
                }
            }
        }
    }
    out[0] = one(r, kinds[0]);
    if kinds.len() >= 2 {
        out[1] = match (kinds[0], kinds[1]) {
            (Kind::Pat(f0), Kind::Pat(f1)) if f0 == f1 => partner(r, f0, out[0]),
            (_, k) => one(r, k),
        };
    }
    if kinds.len() >= 3 {
        out[2] = match (kinds[0], kinds[1], kinds[2]) {
            (Kind::Pat(f0), Kind::Pat(f1), Kind::Pat(f2)) if f0 == f1 && f1 == f2 => {
                fused_addend(r, f0, out[0], out[1])
            }
            (_, _, k) => one(r, k),
        };
    }
}
