//! A trait over the generic-width types PxE1<N>, PxE2<N> forwarding to their public API.

use crate::val::Fmt;
use softposit::{PxE1, PxE2, P16E1, P32E2, P8E0};

pub trait GT:
    Copy
    + Send
    + Sync
    + 'static
    + PartialEq
    + PartialOrd
    + Eq
    + Ord
    + core::ops::Add<Output = Self>
    + core::ops::Sub<Output = Self>
    + core::ops::Mul<Output = Self>
    + core::ops::Div<Output = Self>
    + core::ops::Neg<Output = Self>
    + core::ops::AddAssign
    + core::ops::SubAssign
    + core::ops::MulAssign
    + core::ops::DivAssign
    + From<f32>
    + From<f64>
    + From<i32>
    + From<i64>
    + From<u32>
    + From<u64>
    + From<P8E0>
    + From<P16E1>
    + From<P32E2>
    + Into<f32>
    + Into<f64>
    + Into<i32>
    + Into<i64>
    + Into<u32>
    + Into<u64>
    + Into<P8E0>
    + Into<P16E1>
    + Into<P32E2>
{
    const F: Fmt;
    const W: u32;
    const ES: u32;
    fn tname() -> String {
        format!("PxE{}<{}>", Self::ES, Self::W)
    }
    /// from an N-bit right-aligned pattern
    #[inline(always)]
    fn fb(p: u64) -> Self {
        Self::raw((p as u32) << (32 - Self::W))
    }
    fn raw(bits: u32) -> Self;
    fn tb(self) -> u64;
    fn c_zero() -> Self;
    fn c_one() -> Self;
    fn c_nar() -> Self;
    fn i_new(i: i32) -> Self;
    fn i_mul_add(self, b: Self, c: Self) -> Self;
    fn i_mul_sub(self, b: Self, c: Self) -> Self;
    fn i_sub_product(self, a: Self, b: Self) -> Self;
    fn i_round(self) -> Self;
    fn i_sqrt(self) -> Option<Self>;
    fn i_eq(self, o: Self) -> bool;
    fn i_lt(self, o: Self) -> bool;
    fn i_le(self, o: Self) -> bool;
    fn i_gt(self, o: Self) -> bool;
    fn i_ge(self, o: Self) -> bool;
    fn i_cmp(self, o: Self) -> core::cmp::Ordering;
    fn i_is_zero(self) -> bool;
    fn i_is_nar(self) -> bool;
    fn i_from_f32(x: f32) -> Self;
    fn i_from_f64(x: f64) -> Self;
    fn i_to_f32(self) -> f32;
    fn i_to_f64(self) -> f64;
    fn i_from_i32(x: i32) -> Self;
    fn i_from_i64(x: i64) -> Self;
    fn i_from_u32(x: u32) -> Self;
    fn i_from_u64(x: u64) -> Self;
    fn i_to_i32(self) -> i32;
    fn i_to_i64(self) -> i64;
    fn i_to_u32(self) -> u32;
    fn i_to_u64(self) -> u64;
    fn i_from_p8(x: P8E0) -> Self;
    fn i_from_p16(x: P16E1) -> Self;
    fn i_from_p32(x: P32E2) -> Self;
    fn i_to_p8(self) -> P8E0;
    fn i_to_p16(self) -> P16E1;
    fn i_to_p32(self) -> P32E2;
    /// the same conversions spelled from the fixed-width side (P8E0::from_pxe2, P8E0::to_pxe2 ...)
    fn p8_from(self) -> P8E0;
    fn p16_from(self) -> P16E1;
    fn p32_from(self) -> P32E2;
    fn p8_to(x: P8E0) -> Self;
    fn p16_to(x: P16E1) -> Self;
    fn p32_to(x: P32E2) -> Self;
}

macro_rules! impl_gt {
    ($G:ident, $es:expr, $from_fixed:ident, $to_fixed:ident) => {
        impl<const N: u32> GT for $G<N> {
            const F: Fmt = Fmt { n: N, es: $es };
            const W: u32 = N;
            const ES: u32 = $es;
            #[inline(always)]
            fn raw(bits: u32) -> Self {
                <$G<N>>::from_bits(bits)
            }
            #[inline(always)]
            fn tb(self) -> u64 {
                <$G<N>>::to_bits(self) as u64
            }
            fn c_zero() -> Self {
                <$G<N>>::ZERO
            }
            fn c_one() -> Self {
                <$G<N>>::ONE
            }
            fn c_nar() -> Self {
                <$G<N>>::NAR
            }
            fn i_new(i: i32) -> Self {
                <$G<N>>::new(i)
            }
            fn i_mul_add(self, b: Self, c: Self) -> Self {
                <$G<N>>::mul_add(self, b, c)
            }
            fn i_mul_sub(self, b: Self, c: Self) -> Self {
                <$G<N>>::mul_sub(self, b, c)
            }
            fn i_sub_product(self, a: Self, b: Self) -> Self {
                <$G<N>>::sub_product(self, a, b)
            }
            fn i_round(self) -> Self {
                <$G<N>>::round(self)
            }
            fn i_sqrt(self) -> Option<Self> {
                impl_gt!(@sqrt $G, self)
            }
            fn i_eq(self, o: Self) -> bool {
                <$G<N>>::eq(self, o)
            }
            fn i_lt(self, o: Self) -> bool {
                <$G<N>>::lt(&self, o)
            }
            fn i_le(self, o: Self) -> bool {
                <$G<N>>::le(&self, o)
            }
            fn i_gt(self, o: Self) -> bool {
                <$G<N>>::gt(&self, o)
            }
            fn i_ge(self, o: Self) -> bool {
                <$G<N>>::ge(&self, o)
            }
            fn i_cmp(self, o: Self) -> core::cmp::Ordering {
                <$G<N>>::cmp(self, o)
            }
            fn i_is_zero(self) -> bool {
                <$G<N>>::is_zero(self)
            }
            fn i_is_nar(self) -> bool {
                <$G<N>>::is_nar(self)
            }
            fn i_from_f32(x: f32) -> Self {
                <$G<N>>::from_f32(x)
            }
            fn i_from_f64(x: f64) -> Self {
                <$G<N>>::from_f64(x)
            }
            fn i_to_f32(self) -> f32 {
                <$G<N>>::to_f32(self)
            }
            fn i_to_f64(self) -> f64 {
                <$G<N>>::to_f64(self)
            }
            fn i_from_i32(x: i32) -> Self {
                <$G<N>>::from_i32(x)
            }
            fn i_from_i64(x: i64) -> Self {
                <$G<N>>::from_i64(x)
            }
            fn i_from_u32(x: u32) -> Self {
                <$G<N>>::from_u32(x)
            }
            fn i_from_u64(x: u64) -> Self {
                <$G<N>>::from_u64(x)
            }
            fn i_to_i32(self) -> i32 {
                <$G<N>>::to_i32(self)
            }
            fn i_to_i64(self) -> i64 {
                <$G<N>>::to_i64(self)
            }
            fn i_to_u32(self) -> u32 {
                <$G<N>>::to_u32(self)
            }
            fn i_to_u64(self) -> u64 {
                <$G<N>>::to_u64(self)
            }
            fn i_from_p8(x: P8E0) -> Self {
                <$G<N>>::from_p8e0(x)
            }
            fn i_from_p16(x: P16E1) -> Self {
                <$G<N>>::from_p16e1(x)
            }
            fn i_from_p32(x: P32E2) -> Self {
                <$G<N>>::from_p32e2(x)
            }
            fn i_to_p8(self) -> P8E0 {
                <$G<N>>::to_p8e0(self)
            }
            fn i_to_p16(self) -> P16E1 {
                <$G<N>>::to_p16e1(self)
            }
            fn i_to_p32(self) -> P32E2 {
                <$G<N>>::to_p32e2(self)
            }
            fn p8_from(self) -> P8E0 {
                P8E0::$from_fixed::<N>(self)
            }
            fn p16_from(self) -> P16E1 {
                P16E1::$from_fixed::<N>(self)
            }
            fn p32_from(self) -> P32E2 {
                P32E2::$from_fixed::<N>(self)
            }
            fn p8_to(x: P8E0) -> Self {
                x.$to_fixed::<N>()
            }
            fn p16_to(x: P16E1) -> Self {
                x.$to_fixed::<N>()
            }
            fn p32_to(x: P32E2) -> Self {
                x.$to_fixed::<N>()
            }
        }
    };
    (@sqrt PxE2, $s:expr) => {
        Some(<PxE2<N>>::sqrt($s))
    };
    (@sqrt PxE1, $s:expr) => {
        None
    };
}

impl_gt!(PxE1, 1, from_pxe1, to_pxe1);
impl_gt!(PxE2, 2, from_pxe2, to_pxe2);

/// call `$m!(N, args...)` for every width 2..=32
#[macro_export]
macro_rules! all_n {
    ($m:ident $(, $arg:tt)*) => {
        $m!(2 $(, $arg)*); $m!(3 $(, $arg)*); $m!(4 $(, $arg)*); $m!(5 $(, $arg)*);
        $m!(6 $(, $arg)*); $m!(7 $(, $arg)*); $m!(8 $(, $arg)*); $m!(9 $(, $arg)*);
        $m!(10 $(, $arg)*); $m!(11 $(, $arg)*); $m!(12 $(, $arg)*); $m!(13 $(, $arg)*);
        $m!(14 $(, $arg)*); $m!(15 $(, $arg)*); $m!(16 $(, $arg)*); $m!(17 $(, $arg)*);
        $m!(18 $(, $arg)*); $m!(19 $(, $arg)*); $m!(20 $(, $arg)*); $m!(21 $(, $arg)*);
        $m!(22 $(, $arg)*); $m!(23 $(, $arg)*); $m!(24 $(, $arg)*); $m!(25 $(, $arg)*);
        $m!(26 $(, $arg)*); $m!(27 $(, $arg)*); $m!(28 $(, $arg)*); $m!(29 $(, $arg)*);
        $m!(30 $(, $arg)*); $m!(31 $(, $arg)*); $m!(32 $(, $arg)*);
    };
}
