//! Registry entries for the generic-width types PxE1<N>, PxE2<N>, N = 2..=32:
//! C13 (arithmetic), C14 (conversions), C10 (order / neg / predicates).
//! Inputs are N-bit right-aligned patterns; the closures left-align them (low 32-N bits zero).
//! Results are the raw 32-bit words, expected value = N-bit oracle pattern << (32-N), so a
//! result with non-zero low bits can never match.

use crate::fast::IntMode;
use crate::orf::{self, Bin};
use crate::gen::Kind;
use crate::gt::GT;
use crate::ops::{Op, OutKind};
use crate::ops_fixed::mask;
use crate::orc;
use crate::val::{Fmt, P16, P32, P8};
use softposit::{PxE1, PxE2, P16E1, P32E2, P8E0, Q32E2};
use std::cmp::Ordering;

fn nm<T: GT>(s: &str) -> String {
    format!("{}::{}", T::tname(), s)
}
#[inline(always)]
fn sh<T: GT>() -> u32 {
    32 - T::W
}

macro_rules! g_from_int {
    ($ops:ident, $T:ident, $name:literal, $ifn:ident, $It:ty, $bits:expr, $signed:expr, $stub:expr) => {{
        let mut o = Op::new(
            nm::<$T>($name),
            &["C14"],
            &[Kind::Int { bits: $bits, signed: $signed, f: $T::F }],
            OutKind::PatLeft($T::F),
            |x, _, _| $T::$ifn(x as $It).tb(),
        )
        .oracle(orf::from_int($T::F, sh::<$T>(), $bits, $signed));
        if $stub {
            o = o.stub();
        }
        $ops.push(o);
        let mut o = Op::new(
            nm::<$T>(concat!("From<", stringify!($It), ">")),
            &["C14"],
            &[Kind::Int { bits: $bits, signed: $signed, f: $T::F }],
            OutKind::PatLeft($T::F),
            |x, _, _| <$T as From<$It>>::from(x as $It).tb(),
        )
        .oracle(orf::from_int($T::F, sh::<$T>(), $bits, $signed))
        .weight(0.25);
        if $stub {
            o = o.stub();
        }
        $ops.push(o);
    }};
}

macro_rules! g_to_int {
    ($ops:ident, $T:ident, $name:literal, $ifn:ident, $It:ty, $bits:expr, $signed:expr) => {
        $ops.push(
            Op::new(nm::<$T>($name), &["C14"], &[Kind::Pat($T::F)], OutKind::Raw, |x, _, _| {
                ($T::fb(x).$ifn() as u64) & mask($bits)
            })
            .oracle(orf::to_int($T::F, $bits, $signed)),
        );
        $ops.push(
            Op::new(
                nm::<$T>(concat!("Into<", stringify!($It), ">")),
                &["C14"],
                &[Kind::Pat($T::F)],
                OutKind::Raw,
                |x, _, _| (<$T as Into<$It>>::into($T::fb(x)) as u64) & mask($bits),
            )
            .oracle(orf::to_int($T::F, $bits, $signed))
            .weight(0.25),
        );
    };
}

macro_rules! g_cmp {
    ($ops:ident, $T:ident, $name:literal, $run:expr, $pred:expr) => {
        $ops.push(
            Op::new(
                nm::<$T>($name),
                &["C10"],
                &[Kind::Pat($T::F), Kind::Pat($T::F)],
                OutKind::Raw,
                |x, y, _| {
                    let f: fn($T, $T) -> bool = $run;
                    f($T::fb(x), $T::fb(y)) as u64
                },
            )
            .oracle(orf::cmp_pred($T::F, $pred))
            .weight(0.25),
        );
    };
}

macro_rules! g_fixed_conv {
    ($ops:ident, $T:ident, $P:ty, $PF:expr, $pname:literal, $from:ident, $to:ident, $pfrom:ident, $pto:ident) => {
        // fixed -> generic: three spellings, all must give the N-bit rounding of the value
        $ops.push(
            Op::new(
                nm::<$T>(concat!("from_", $pname)),
                &["C14"],
                &[Kind::Pat($PF)],
                OutKind::PatLeft($T::F),
                |x, _, _| {
                    let p = <$P as crate::pt::PT>::fb(x);
                    let a = $T::$from(p).tb();
                    let b = <$T as From<$P>>::from(p).tb();
                    let c = $T::$pto(p).tb();
                    if a == b && b == c {
                        a
                    } else {
                        0xdead_0000_0000 | (a ^ b ^ c)
                    }
                },
            )
            .oracle(orf::convert($PF, $T::F, sh::<$T>()))
            .note("from_pX, From<PX> and PX::to_pxeN must all agree with the oracle"),
        );
        // generic -> fixed
        $ops.push(
            Op::new(
                nm::<$T>(concat!("to_", $pname)),
                &["C14"],
                &[Kind::Pat($T::F)],
                OutKind::Pat($PF),
                |x, _, _| {
                    use crate::pt::PT;
                    let g = $T::fb(x);
                    let a = g.$to().tb();
                    let b = <$T as Into<$P>>::into(g).tb();
                    let c = g.$pfrom().tb();
                    if a == b && b == c {
                        a
                    } else {
                        0xdead_0000_0000 | (a ^ b ^ c)
                    }
                },
            )
            .oracle(orf::convert($T::F, $PF, 0))
            .note("to_pX, Into<PX> and PX::from_pxeN must all agree with the oracle"),
        );
    };
}

fn register_gt<T: GT>(ops: &mut Vec<Op>) {
    let k = Kind::Pat(T::F);
    let out = OutKind::PatLeft(T::F);
    // ---------------------------------------------------------------- C13
    ops.push(
        Op::new(nm::<T>("add"), &["C13"], &[k, k], out, |x, y, _| (T::fb(x) + T::fb(y)).tb())
            .oracle(orf::bin(T::F, sh::<T>(), Bin::Add)),
    );
    ops.push(
        Op::new(nm::<T>("sub"), &["C13"], &[k, k], out, |x, y, _| (T::fb(x) - T::fb(y)).tb())
            .oracle(orf::bin(T::F, sh::<T>(), Bin::Sub)),
    );
    ops.push(
        Op::new(nm::<T>("mul"), &["C13"], &[k, k], out, |x, y, _| (T::fb(x) * T::fb(y)).tb())
            .oracle(orf::bin(T::F, sh::<T>(), Bin::Mul)),
    );
    ops.push(
        Op::new(nm::<T>("div"), &["C13"], &[k, k], out, |x, y, _| (T::fb(x) / T::fb(y)).tb())
            .oracle(orf::bin(T::F, sh::<T>(), Bin::Div)),
    );
    ops.push(
        Op::new(nm::<T>("op_assign"), &["C13"], &[k, k], OutKind::Raw, |x, y, _| {
            // += -= *= /= digest against the binary operators (differential)
            let (a, b) = (T::fb(x), T::fb(y));
            let mut s = a;
            s += b;
            let mut d = a;
            d -= b;
            let mut m = a;
            m *= b;
            let mut q = a;
            q /= b;
            (s.tb() == (a + b).tb() && d.tb() == (a - b).tb() && m.tb() == (a * b).tb() && q.tb() == (a / b).tb()) as u64
        })
        .slow(|_, _, _| Some(1))
        .weight(0.25)
        .diff(),
    );
    ops.push(
        Op::new(nm::<T>("mul_add"), &["C13"], &[k, k, k], out, |x, y, z| {
            T::fb(x).i_mul_add(T::fb(y), T::fb(z)).tb()
        })
        .oracle(orf::fma(T::F, sh::<T>(), 0)),
    );
    ops.push(
        Op::new(nm::<T>("mul_sub"), &["C13"], &[k, k, k], out, |x, y, z| {
            T::fb(x).i_mul_sub(T::fb(y), T::fb(z)).tb()
        })
        .oracle(orf::fma(T::F, sh::<T>(), 1)),
    );
    ops.push(
        Op::new(nm::<T>("sub_product"), &["C13"], &[k, k, k], out, |x, y, z| {
            T::fb(z).i_sub_product(T::fb(x), T::fb(y)).tb()
        })
        .oracle(orf::fma(T::F, sh::<T>(), 2))
        .note("inputs (a,b,c) -> c.sub_product(a,b)"),
    );
    if T::ES == 2 {
        ops.push(
            Op::new(nm::<T>("sqrt"), &["C13"], &[k], out, |x, _, _| T::fb(x).i_sqrt().unwrap().tb())
                .oracle(orf::sqrt(T::F, sh::<T>())),
        );
    }
    ops.push(
        Op::new(nm::<T>("round"), &["C13"], &[k], out, |x, _, _| T::fb(x).i_round().tb())
            .oracle(orf::int_round(T::F, sh::<T>(), IntMode::NearestEven)),
    );

    // ---------------------------------------------------------------- C10 (generic types)
    g_cmp!(ops, T, "op==", |a, c| a == c, |o| o == Ordering::Equal);
    g_cmp!(ops, T, "op<", |a, c| a < c, |o| o == Ordering::Less);
    g_cmp!(ops, T, "op<=", |a, c| a <= c, |o| o != Ordering::Greater);
    g_cmp!(ops, T, "op>", |a, c| a > c, |o| o == Ordering::Greater);
    g_cmp!(ops, T, "op>=", |a, c| a >= c, |o| o != Ordering::Less);
    g_cmp!(ops, T, "eq", |a, c| a.i_eq(c), |o| o == Ordering::Equal);
    g_cmp!(ops, T, "lt", |a, c| a.i_lt(c), |o| o == Ordering::Less);
    g_cmp!(ops, T, "le", |a, c| a.i_le(c), |o| o != Ordering::Greater);
    g_cmp!(ops, T, "gt", |a, c| a.i_gt(c), |o| o == Ordering::Greater);
    g_cmp!(ops, T, "ge", |a, c| a.i_ge(c), |o| o != Ordering::Less);
    ops.push(
        Op::new(nm::<T>("cmp"), &["C10"], &[k, k], OutKind::Raw, |x, y, _| {
            let a = orc::ord_code(T::fb(x).i_cmp(T::fb(y)));
            let b = orc::ord_code(Ord::cmp(&T::fb(x), &T::fb(y)));
            if a == b { a } else { 7 }
        })
        .oracle(orf::cmp_code(T::F))
        .weight(0.25),
    );
    ops.push(
        Op::new(nm::<T>("neg"), &["C10"], &[k], out, |x, _, _| (-T::fb(x)).tb())
            .oracle(orf::neg(T::F, sh::<T>())),
    );
    ops.push(
        Op::new(nm::<T>("is_zero/is_nar"), &["C10"], &[k], OutKind::Raw, |x, _, _| {
            (T::fb(x).i_is_zero() as u64) | ((T::fb(x).i_is_nar() as u64) << 1)
        })
        .slow_boxed(orf::zero_nar_flags(T::F))
        .weight(0.25),
    );

    // ---------------------------------------------------------------- C14: floats
    ops.push(
        Op::new(nm::<T>("from_f32"), &["C14"], &[Kind::F32(T::F)], out, |x, _, _| {
            let f = f32::from_bits(x as u32);
            let a = T::i_from_f32(f).tb();
            let b = <T as From<f32>>::from(f).tb();
            if a == b { a } else { 0xdead_0000_0000 | (a ^ b) }
        })
        .oracle(orf::from_f32(T::F, sh::<T>())),
    );
    ops.push(
        Op::new(nm::<T>("from_f64"), &["C14"], &[Kind::F64(T::F)], out, |x, _, _| {
            let f = f64::from_bits(x);
            let a = T::i_from_f64(f).tb();
            let b = <T as From<f64>>::from(f).tb();
            if a == b { a } else { 0xdead_0000_0000 | (a ^ b) }
        })
        .oracle(orf::from_f64(T::F, sh::<T>())),
    );
    ops.push(
        Op::new(nm::<T>("to_f64"), &["C14"], &[k], OutKind::Raw, |x, _, _| {
            let a = orc::canon_f64(T::fb(x).i_to_f64().to_bits());
            let b = orc::canon_f64(<T as Into<f64>>::into(T::fb(x)).to_bits());
            if a == b { a } else { 0xdead }
        })
        .oracle(orf::to_f64(T::F)),
    );
    ops.push(
        Op::new(nm::<T>("to_f32"), &["C14"], &[k], OutKind::Raw, |x, _, _| {
            let a = orc::canon_f32(T::fb(x).i_to_f32().to_bits()) as u64;
            let b = orc::canon_f32(<T as Into<f32>>::into(T::fb(x)).to_bits()) as u64;
            if a == b { a } else { 0xdead }
        })
        .oracle(orf::to_f32(T::F)),
    );
    ops.push(
        Op::new(nm::<T>("roundtrip_f64"), &["C14"], &[k], out, |x, _, _| {
            T::i_from_f64(T::fb(x).i_to_f64()).tb()
        })
        .oracle(orf::identity(sh::<T>()))
        .weight(0.5),
    );

    // ---------------------------------------------------------------- C14: integers
    let e1 = T::ES == 1;
    g_from_int!(ops, T, "from_i32", i_from_i32, i32, 32, true, false);
    g_from_int!(ops, T, "from_i64", i_from_i64, i64, 64, true, e1);
    g_from_int!(ops, T, "from_u32", i_from_u32, u32, 32, false, e1);
    g_from_int!(ops, T, "from_u64", i_from_u64, u64, 64, false, false);
    g_to_int!(ops, T, "to_i32", i_to_i32, i32, 32, true);
    g_to_int!(ops, T, "to_u32", i_to_u32, u32, 32, false);
    g_to_int!(ops, T, "to_i64", i_to_i64, i64, 64, true);
    g_to_int!(ops, T, "to_u64", i_to_u64, u64, 64, false);

    // ---------------------------------------------------------------- C14: fixed-width posits
    g_fixed_conv!(ops, T, P8E0, P8, "p8e0", i_from_p8, i_to_p8, p8_from, p8_to);
    g_fixed_conv!(ops, T, P16E1, P16, "p16e1", i_from_p16, i_to_p16, p16_from, p16_to);
    g_fixed_conv!(ops, T, P32E2, P32, "p32e2", i_from_p32, i_to_p32, p32_from, p32_to);
}

/// Q32E2 <-> PxE2<N> (the quire of the generic es=2 family)
fn register_quire_px<const N: u32>(ops: &mut Vec<Op>) {
    use softposit::Quire;
    let f = Fmt { n: N, es: 2 };
    let k = Kind::Pat(f);
    type G<const N: u32> = PxE2<N>;
    ops.push(
        Op::new(
            format!("PxE2<{}>::From<Q32E2>(a*b+c)", N),
            &["C14"],
            &[k, k, k],
            OutKind::PatLeft(f),
            |x, y, z| {
                let (a, b, c) = (G::<N>::fb(x), G::<N>::fb(y), G::<N>::fb(z));
                let mut q = <Q32E2 as Quire<G<N>>>::from_posit(c);
                <Q32E2 as Quire<G<N>>>::add_product(&mut q, a, b);
                let r1 = <G<N> as From<&Q32E2>>::from(&q).tb();
                let r2 = <Q32E2 as Quire<G<N>>>::to_posit(&q).tb();
                let r3 = <G<N> as From<Q32E2>>::from(q).tb();
                if r1 == r2 && r2 == r3 {
                    r1
                } else {
                    0xdead_0000_0000 | (r1 ^ r2 ^ r3)
                }
            },
        )
        .oracle(orf::fma(f, 32 - N, 0))
        .note("quire made from c, += a*b through Quire<PxE2<N>>, rounded to N bits by three spellings"),
    );
    ops.push(
        Op::new(
            format!("PxE2<{}>::Q32E2 c - a*b, ops spellings", N),
            &["C14"],
            &[k, k, k],
            OutKind::PatLeft(f),
            |x, y, z| {
                let (a, b, c) = (G::<N>::fb(x), G::<N>::fb(y), G::<N>::fb(z));
                let mut q = <Q32E2 as From<G<N>>>::from(c);
                <Q32E2 as Quire<G<N>>>::sub_product(&mut q, a, b);
                let mut q2 = Q32E2::init();
                q2 += c;
                q2 -= (a, b);
                if q.to_bits() != q2.to_bits() {
                    return 0xdead_0000_0001;
                }
                <G<N> as From<&Q32E2>>::from(&q).tb()
            },
        )
        .oracle(orf::fma(f, 32 - N, 2))
        .weight(0.5),
    );
    // the trivial forwarders of Quire<PxE2<N>> for Q32E2 against the inherent methods (C17)
    ops.push(
        Op::new(
            format!("PxE2<{}>::Quire<PxE2> forwarders vs inherent Q32E2", N),
            &["C17"],
            &[k, k, k],
            OutKind::Raw,
            |x, y, z| {
                let (a, b, c) = (G::<N>::fb(x), G::<N>::fb(y), G::<N>::fb(z));
                let mut q = <Q32E2 as Quire<G<N>>>::init();
                let mut q2 = Q32E2::init();
                if <Q32E2 as Quire<G<N>>>::to_bits(&q) != q2.to_bits() {
                    return 1;
                }
                <Q32E2 as Quire<G<N>>>::add_product(&mut q, a, b);
                <Q32E2 as Quire<G<N>>>::sub_product(&mut q, c, c);
                q2 += (a, b);
                q2 -= (c, c);
                let img = <Q32E2 as Quire<G<N>>>::to_bits(&q);
                if img != q2.to_bits() {
                    return 2;
                }
                if <Q32E2 as Quire<G<N>>>::is_zero(&q) != q2.is_zero() || <Q32E2 as Quire<G<N>>>::is_nar(&q) != q2.is_nar() {
                    return 3;
                }
                let r = <Q32E2 as Quire<G<N>>>::from_bits(img);
                if r.to_bits() != Q32E2::from_bits(img).to_bits() {
                    return 4;
                }
                <Q32E2 as Quire<G<N>>>::neg(&mut q);
                q2.neg();
                if q.to_bits() != q2.to_bits() {
                    return 5;
                }
                <Q32E2 as Quire<G<N>>>::clear(&mut q);
                q2.clear();
                if q.to_bits() != q2.to_bits() {
                    return 6;
                }
                0
            },
        )
        .slow(|_, _, _| Some(0))
        .weight(0.02)
        .note("0 = every trait method agreed with the inherent method; k = first step that differed"),
    );
}

/// generic <-> generic width / exponent-size conversions for one (M, N) pair
#[cfg_attr(not(feature = "pairs"), allow(dead_code))]
fn register_pair<const M: u32, const N: u32>(ops: &mut Vec<Op>) {
    let f1m = Fmt { n: M, es: 1 };
    let f2m = Fmt { n: M, es: 2 };
    let f1n = Fmt { n: N, es: 1 };
    let f2n = Fmt { n: N, es: 2 };
    // PxE2<M> -> PxE2<N>
    ops.push(
        Op::new(format!("PxE2<{}>->PxE2<{}>", M, N), &["C14"], &[Kind::Pat(f2m)], OutKind::PatLeft(f2n), |x, _, _| {
            PxE2::<N>::from_pxe2::<M>(PxE2::<M>::fb(x)).tb()
        })
        .oracle(orf::convert(f2m, f2n, 32 - N))
        .weight(0.05),
    );
    // PxE2<M> -> PxE1<N>: three spellings
    ops.push(
        Op::new(format!("PxE2<{}>->PxE1<{}>", M, N), &["C14"], &[Kind::Pat(f2m)], OutKind::PatLeft(f1n), |x, _, _| {
            let g = PxE2::<M>::fb(x);
            let a = PxE1::<N>::from_pxe2::<M>(g).tb();
            let b = g.to_pxe1::<N>().tb();
            let c = <PxE1<N> as From<PxE2<M>>>::from(g).tb();
            if a == b && b == c { a } else { 0xdead_0000_0000 | (a ^ b ^ c) }
        })
        .oracle(orf::convert(f2m, f1n, 32 - N))
        .weight(0.05),
    );
    // PxE1<M> -> PxE2<N>: three spellings
    ops.push(
        Op::new(format!("PxE1<{}>->PxE2<{}>", M, N), &["C14"], &[Kind::Pat(f1m)], OutKind::PatLeft(f2n), |x, _, _| {
            let g = PxE1::<M>::fb(x);
            let a = PxE2::<N>::from_pxe1::<M>(g).tb();
            let b = g.to_pxe2::<N>().tb();
            let c = <PxE2<N> as From<PxE1<M>>>::from(g).tb();
            if a == b && b == c { a } else { 0xdead_0000_0000 | (a ^ b ^ c) }
        })
        .oracle(orf::convert(f1m, f2n, 32 - N))
        .weight(0.05),
    );
}

/// under Miri only the width named by SPVERIF_MIRI_N is registered (registry construction
/// itself is interpreted and would take minutes for all 62 instantiations)
fn width_wanted(n: u32) -> bool {
    if !cfg!(miri) {
        return true;
    }
    match std::env::var("SPVERIF_MIRI_N") {
        Ok(v) => v.parse::<u32>().ok() == Some(n),
        Err(_) => false,
    }
}

macro_rules! reg_n {
    ($n:tt, $ops:ident) => {
        if width_wanted($n) {
            register_gt::<PxE1<$n>>($ops);
            register_gt::<PxE2<$n>>($ops);
            register_quire_px::<$n>($ops);
        }
    };
}
macro_rules! pair_inner {
    ($n:tt, $m:tt, $ops:ident) => {
        register_pair::<$m, $n>($ops);
    };
}
macro_rules! pair_outer {
    ($m:tt, $ops:ident) => {
        crate::all_n!(pair_inner, $m, $ops);
    };
}

pub fn register(ops: &mut Vec<Op>) {
    crate::all_n!(reg_n, ops);
    #[cfg(feature = "pairs")]
    {
        crate::all_n!(pair_outer, ops);
    }
    if cfg!(miri) {
        return;
    }
    // bit-for-bit agreement of the full-width instantiations with the fixed types (differential)
    let k32 = Kind::Pat(P32);
    let k16 = Kind::Pat(P16);
    macro_rules! same2 {
        ($name:literal, $k:expr, $a:expr, $b:expr) => {
            ops.push(
                Op::new($name, &["C13"], &[$k, $k], OutKind::Raw, |x, y, _| {
                    let f: fn(u64, u64) -> u64 = $a;
                    f(x, y)
                })
                .slow(|x, y, _| {
                    let g: fn(u64, u64) -> u64 = $b;
                    Some(g(x, y))
                })
                .diff(),
            );
        };
    }
    type G32 = PxE2<32>;
    type G16 = PxE1<16>;
    let p32 = |x: u64| P32E2::from_bits(x as u32);
    let _ = p32;
    same2!("PxE2<32>+ vs P32E2+", k32, |x, y| (G32::fb(x) + G32::fb(y)).tb(), |x, y| (P32E2::from_bits(x as u32) + P32E2::from_bits(y as u32)).to_bits() as u64);
    same2!("PxE2<32>- vs P32E2-", k32, |x, y| (G32::fb(x) - G32::fb(y)).tb(), |x, y| (P32E2::from_bits(x as u32) - P32E2::from_bits(y as u32)).to_bits() as u64);
    same2!("PxE2<32>* vs P32E2*", k32, |x, y| (G32::fb(x) * G32::fb(y)).tb(), |x, y| (P32E2::from_bits(x as u32) * P32E2::from_bits(y as u32)).to_bits() as u64);
    same2!("PxE2<32>/ vs P32E2/", k32, |x, y| (G32::fb(x) / G32::fb(y)).tb(), |x, y| (P32E2::from_bits(x as u32) / P32E2::from_bits(y as u32)).to_bits() as u64);
    same2!("PxE2<32>sqrt/round vs P32E2", k32,
        |x, y| G32::fb(x).i_sqrt().unwrap().tb() ^ (G32::fb(y).i_round().tb() << 32),
        |x, y| (P32E2::from_bits(x as u32).sqrt().to_bits() as u64) ^ ((P32E2::from_bits(y as u32).round().to_bits() as u64) << 32));
    same2!("PxE1<16>+ vs P16E1+", k16, |x, y| (G16::fb(x) + G16::fb(y)).tb(), |x, y| ((P16E1::from_bits(x as u16) + P16E1::from_bits(y as u16)).to_bits() as u64) << 16);
    same2!("PxE1<16>- vs P16E1-", k16, |x, y| (G16::fb(x) - G16::fb(y)).tb(), |x, y| ((P16E1::from_bits(x as u16) - P16E1::from_bits(y as u16)).to_bits() as u64) << 16);
    same2!("PxE1<16>* vs P16E1*", k16, |x, y| (G16::fb(x) * G16::fb(y)).tb(), |x, y| ((P16E1::from_bits(x as u16) * P16E1::from_bits(y as u16)).to_bits() as u64) << 16);
    same2!("PxE1<16>/ vs P16E1/", k16, |x, y| (G16::fb(x) / G16::fb(y)).tb(), |x, y| ((P16E1::from_bits(x as u16) / P16E1::from_bits(y as u16)).to_bits() as u64) << 16);
    same2!("PxE1<16>round vs P16E1", k16, |x, _| G16::fb(x).i_round().tb(), |x, _| (P16E1::from_bits(x as u16).round().to_bits() as u64) << 16);
    ops.push(
        Op::new("PxE2<32>fused vs P32E2", &["C13"], &[k32, k32, k32], OutKind::Raw, |x, y, z| {
            let (a, b, c) = (G32::fb(x), G32::fb(y), G32::fb(z));
            crate::rng::mix64(a.i_mul_add(b, c).tb() ^ (a.i_mul_sub(b, c).tb() << 20) ^ (c.i_sub_product(a, b).tb() << 40))
        })
        .slow(|x, y, z| {
            let (a, b, c) = (P32E2::from_bits(x as u32), P32E2::from_bits(y as u32), P32E2::from_bits(z as u32));
            Some(crate::rng::mix64((a.mul_add(b, c).to_bits() as u64) ^ ((a.mul_sub(b, c).to_bits() as u64) << 20) ^ ((c.sub_product(a, b).to_bits() as u64) << 40)))
        })
        .diff(),
    );
    ops.push(
        Op::new("PxE1<16>fused vs P16E1", &["C13"], &[k16, k16, k16], OutKind::Raw, |x, y, z| {
            let (a, b, c) = (G16::fb(x), G16::fb(y), G16::fb(z));
            crate::rng::mix64(a.i_mul_add(b, c).tb() ^ (a.i_mul_sub(b, c).tb() << 20) ^ (c.i_sub_product(a, b).tb() << 40))
        })
        .slow(|x, y, z| {
            let (a, b, c) = (P16E1::from_bits(x as u16), P16E1::from_bits(y as u16), P16E1::from_bits(z as u16));
            let l = |p: P16E1| (p.to_bits() as u64) << 16;
            Some(crate::rng::mix64(l(a.mul_add(b, c)) ^ (l(a.mul_sub(b, c)) << 20) ^ (l(c.sub_product(a, b)) << 40)))
        })
        .diff(),
    );
}
