use crate::ops::Op;
pub fn register(_ops: &mut Vec<Op>) {}
