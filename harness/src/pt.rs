//! A trait over the three fixed-width posit types that forwards to their *inherent* methods,
//! so that monitors can be written once. (The forwarding is trivial; it contains no logic.)

use crate::val::{Fmt, P16, P32, P8};
use softposit::{P16E1, P32E2, P8E0, Q16E1, Q32E2, Q8E0};

pub trait PT:
    Copy
    + Send
    + Sync
    + 'static
    + PartialEq
    + PartialOrd
    + Eq
    + Ord
    + core::fmt::Display
    + core::fmt::Debug
    + core::str::FromStr
    + core::ops::Add<Output = Self>
    + core::ops::Sub<Output = Self>
    + core::ops::Mul<Output = Self>
    + core::ops::Div<Output = Self>
    + core::ops::Rem<Output = Self>
    + core::ops::Neg<Output = Self>
    + core::ops::AddAssign
    + core::ops::SubAssign
    + core::ops::MulAssign
    + core::ops::DivAssign
    + core::ops::RemAssign
    + From<f32>
    + From<f64>
    + From<i8>
    + From<i16>
    + From<i32>
    + From<i64>
    + From<isize>
    + From<u8>
    + From<u16>
    + From<u32>
    + From<u64>
    + From<usize>
    + Into<f32>
    + Into<f64>
    + Into<i8>
    + Into<i16>
    + Into<i32>
    + Into<i64>
    + Into<isize>
    + Into<u8>
    + Into<u16>
    + Into<u32>
    + Into<u64>
    + Into<usize>
    + num_traits::Float
    + num_traits::FloatConst
    + num_traits::Signed
    + num_traits::FromPrimitive
    + num_traits::NumCast
    + softposit::MathConsts
{
    const F: Fmt;
    const NAME: &'static str;
    fn fb(a: u64) -> Self;
    fn tb(self) -> u64;

    fn i_add(self, o: Self) -> Self;
    fn i_sub(self, o: Self) -> Self;
    fn i_mul(self, o: Self) -> Self;
    fn i_div(self, o: Self) -> Self;
    fn i_rem(self, o: Self) -> Self;
    fn i_neg(self) -> Self;
    fn i_abs(self) -> Self;
    fn i_signum(self) -> Self;
    fn i_copysign(self, o: Self) -> Self;
    fn i_min(self, o: Self) -> Self;
    fn i_max(self, o: Self) -> Self;
    fn i_clamp(self, lo: Self, hi: Self) -> Self;
    fn i_eq(self, o: Self) -> bool;
    fn i_lt(self, o: Self) -> bool;
    fn i_le(self, o: Self) -> bool;
    fn i_gt(self, o: Self) -> bool;
    fn i_ge(self, o: Self) -> bool;
    fn i_cmp(self, o: Self) -> core::cmp::Ordering;
    fn i_is_zero(self) -> bool;
    fn i_is_nar(self) -> bool;
    fn i_is_nan(self) -> bool;
    fn i_is_finite(self) -> bool;
    fn i_is_infinite(self) -> bool;
    fn i_is_normal(self) -> bool;
    fn i_is_sign_positive(self) -> bool;
    fn i_is_sign_negative(self) -> bool;
    fn i_classify(self) -> core::num::FpCategory;
    fn i_mul_add(self, b: Self, c: Self) -> Self;
    fn i_mul_sub(self, b: Self, c: Self) -> Self;
    fn i_sub_product(self, a: Self, b: Self) -> Self;
    fn i_sqrt(self) -> Self;
    fn i_round(self) -> Self;
    fn i_floor(self) -> Self;
    fn i_ceil(self) -> Self;
    fn i_trunc(self) -> Self;
    fn i_fract(self) -> Self;
    fn i_recip(self) -> Self;
    fn i_div_euclid(self, o: Self) -> Self;
    fn i_rem_euclid(self, o: Self) -> Self;
    fn i_from_f32(x: f32) -> Self;
    fn i_from_f64(x: f64) -> Self;
    fn i_to_f32(self) -> f32;
    fn i_to_f64(self) -> f64;
    fn i_from_i8(x: i8) -> Self;
    fn i_from_i16(x: i16) -> Self;
    fn i_from_i32(x: i32) -> Self;
    fn i_from_i64(x: i64) -> Self;
    fn i_from_isize(x: isize) -> Self;
    fn i_from_u8(x: u8) -> Self;
    fn i_from_u16(x: u16) -> Self;
    fn i_from_u32(x: u32) -> Self;
    fn i_from_u64(x: u64) -> Self;
    fn i_from_usize(x: usize) -> Self;
    fn i_to_i8(self) -> i8;
    fn i_to_i16(self) -> i16;
    fn i_to_i32(self) -> i32;
    fn i_to_i64(self) -> i64;
    fn i_to_isize(self) -> isize;
    fn i_to_u8(self) -> u8;
    fn i_to_u16(self) -> u16;
    fn i_to_u32(self) -> u32;
    fn i_to_u64(self) -> u64;
    fn i_to_usize(self) -> usize;
    fn i_asinh(self) -> Self;
    fn i_acosh(self) -> Self;
    fn c_zero() -> Self;
    fn c_one() -> Self;
    fn c_nar() -> Self;
    fn c_min() -> Self;
    fn c_max() -> Self;
    fn c_min_positive() -> Self;
    fn c_epsilon() -> Self;
}

macro_rules! impl_pt {
    ($T:ty, $F:expr, $name:literal, $U:ty) => {
        impl PT for $T {
            const F: Fmt = $F;
            const NAME: &'static str = $name;
            #[inline(always)]
            fn fb(a: u64) -> Self {
                <$T>::from_bits(a as $U)
            }
            #[inline(always)]
            fn tb(self) -> u64 {
                <$T>::to_bits(self) as u64
            }
            #[inline(always)]
            fn i_add(self, o: Self) -> Self {
                <$T>::add(self, o)
            }
            #[inline(always)]
            fn i_sub(self, o: Self) -> Self {
                <$T>::sub(self, o)
            }
            #[inline(always)]
            fn i_mul(self, o: Self) -> Self {
                <$T>::mul(self, o)
            }
            #[inline(always)]
            fn i_div(self, o: Self) -> Self {
                <$T>::div(self, o)
            }
            fn i_rem(self, o: Self) -> Self {
                <$T>::rem(self, o)
            }
            #[inline(always)]
            fn i_neg(self) -> Self {
                <$T>::neg(self)
            }
            fn i_abs(self) -> Self {
                <$T>::abs(self)
            }
            fn i_signum(self) -> Self {
                <$T>::signum(self)
            }
            fn i_copysign(self, o: Self) -> Self {
                <$T>::copysign(self, o)
            }
            fn i_min(self, o: Self) -> Self {
                <$T>::min(self, o)
            }
            fn i_max(self, o: Self) -> Self {
                <$T>::max(self, o)
            }
            fn i_clamp(self, lo: Self, hi: Self) -> Self {
                <$T>::clamp(self, lo, hi)
            }
            fn i_eq(self, o: Self) -> bool {
                <$T>::eq(self, o)
            }
            fn i_lt(self, o: Self) -> bool {
                <$T>::lt(&self, o)
            }
            fn i_le(self, o: Self) -> bool {
                <$T>::le(&self, o)
            }
            fn i_gt(self, o: Self) -> bool {
                <$T>::gt(&self, o)
            }
            fn i_ge(self, o: Self) -> bool {
                <$T>::ge(&self, o)
            }
            fn i_cmp(self, o: Self) -> core::cmp::Ordering {
                <$T>::cmp(self, o)
            }
            fn i_is_zero(self) -> bool {
                <$T>::is_zero(self)
            }
            fn i_is_nar(self) -> bool {
                <$T>::is_nar(self)
            }
            fn i_is_nan(self) -> bool {
                <$T>::is_nan(self)
            }
            fn i_is_finite(self) -> bool {
                <$T>::is_finite(self)
            }
            fn i_is_infinite(self) -> bool {
                <$T>::is_infinite(self)
            }
            fn i_is_normal(self) -> bool {
                <$T>::is_normal(self)
            }
            fn i_is_sign_positive(self) -> bool {
                <$T>::is_sign_positive(self)
            }
            fn i_is_sign_negative(self) -> bool {
                <$T>::is_sign_negative(self)
            }
            fn i_classify(self) -> core::num::FpCategory {
                <$T>::classify(self)
            }
            #[inline(always)]
            fn i_mul_add(self, b: Self, c: Self) -> Self {
                <$T>::mul_add(self, b, c)
            }
            #[inline(always)]
            fn i_mul_sub(self, b: Self, c: Self) -> Self {
                <$T>::mul_sub(self, b, c)
            }
            #[inline(always)]
            fn i_sub_product(self, a: Self, b: Self) -> Self {
                <$T>::sub_product(self, a, b)
            }
            #[inline(always)]
            fn i_sqrt(self) -> Self {
                <$T>::sqrt(self)
            }
            fn i_round(self) -> Self {
                <$T>::round(self)
            }
            fn i_floor(self) -> Self {
                <$T>::floor(self)
            }
            fn i_ceil(self) -> Self {
                <$T>::ceil(self)
            }
            fn i_trunc(self) -> Self {
                <$T>::trunc(self)
            }
            fn i_fract(self) -> Self {
                <$T>::fract(self)
            }
            fn i_recip(self) -> Self {
                <$T>::recip(self)
            }
            fn i_div_euclid(self, o: Self) -> Self {
                <$T>::div_euclid(self, o)
            }
            fn i_rem_euclid(self, o: Self) -> Self {
                <$T>::rem_euclid(self, o)
            }
            #[inline(always)]
            fn i_from_f32(x: f32) -> Self {
                <$T>::from_f32(x)
            }
            #[inline(always)]
            fn i_from_f64(x: f64) -> Self {
                <$T>::from_f64(x)
            }
            #[inline(always)]
            fn i_to_f32(self) -> f32 {
                <$T>::to_f32(self)
            }
            #[inline(always)]
            fn i_to_f64(self) -> f64 {
                <$T>::to_f64(self)
            }
            fn i_from_i8(x: i8) -> Self {
                <$T>::from_i8(x)
            }
            fn i_from_i16(x: i16) -> Self {
                <$T>::from_i16(x)
            }
            fn i_from_i32(x: i32) -> Self {
                <$T>::from_i32(x)
            }
            fn i_from_i64(x: i64) -> Self {
                <$T>::from_i64(x)
            }
            fn i_from_isize(x: isize) -> Self {
                <$T>::from_isize(x)
            }
            fn i_from_u8(x: u8) -> Self {
                <$T>::from_u8(x)
            }
            fn i_from_u16(x: u16) -> Self {
                <$T>::from_u16(x)
            }
            fn i_from_u32(x: u32) -> Self {
                <$T>::from_u32(x)
            }
            fn i_from_u64(x: u64) -> Self {
                <$T>::from_u64(x)
            }
            fn i_from_usize(x: usize) -> Self {
                <$T>::from_usize(x)
            }
            fn i_to_i8(self) -> i8 {
                <$T>::to_i8(self)
            }
            fn i_to_i16(self) -> i16 {
                <$T>::to_i16(self)
            }
            fn i_to_i32(self) -> i32 {
                <$T>::to_i32(self)
            }
            fn i_to_i64(self) -> i64 {
                <$T>::to_i64(self)
            }
            fn i_to_isize(self) -> isize {
                <$T>::to_isize(self)
            }
            fn i_to_u8(self) -> u8 {
                <$T>::to_u8(self)
            }
            fn i_to_u16(self) -> u16 {
                <$T>::to_u16(self)
            }
            fn i_to_u32(self) -> u32 {
                <$T>::to_u32(self)
            }
            fn i_to_u64(self) -> u64 {
                <$T>::to_u64(self)
            }
            fn i_to_usize(self) -> usize {
                <$T>::to_usize(self)
            }
            fn i_asinh(self) -> Self {
                <$T>::asinh(self)
            }
            fn i_acosh(self) -> Self {
                <$T>::acosh(self)
            }
            fn c_zero() -> Self {
                <$T>::ZERO
            }
            fn c_one() -> Self {
                <$T>::ONE
            }
            fn c_nar() -> Self {
                <$T>::NAR
            }
            fn c_min() -> Self {
                <$T>::MIN
            }
            fn c_max() -> Self {
                <$T>::MAX
            }
            fn c_min_positive() -> Self {
                <$T>::MIN_POSITIVE
            }
            fn c_epsilon() -> Self {
                <$T>::EPSILON
            }
        }
    };
}

impl_pt!(P8E0, P8, "P8E0", u8);
impl_pt!(P16E1, P16, "P16E1", u16);
impl_pt!(P32E2, P32, "P32E2", u32);

/// quire trait for monitors: forwards to inherent methods of the three quires
pub trait QT: Send + Sync + 'static {
    type P: PT;
    const NAME: &'static str;
    const TOTAL_BITS: u32;
    const FRAC_BITS: u32;
    fn init() -> Self;
    /// little-endian 64-bit limbs of the bit image
    fn limbs_le(&self) -> Vec<u64>;
    fn from_limbs_le(l: &[u64]) -> Self;
    fn i_is_zero(&self) -> bool;
    fn i_is_nar(&self) -> bool;
    fn i_to_posit(&self) -> Self::P;
    fn i_from_posit(p: Self::P) -> Self;
    fn i_clear(&mut self);
    fn i_neg(&mut self);
    fn add_prod(&mut self, a: Self::P, b: Self::P);
    fn sub_prod(&mut self, a: Self::P, b: Self::P);
    fn add_one(&mut self, a: Self::P);
    fn sub_one(&mut self, a: Self::P);
}

impl QT for Q8E0 {
    type P = P8E0;
    const NAME: &'static str = "Q8E0";
    const TOTAL_BITS: u32 = 32;
    const FRAC_BITS: u32 = 12;
    fn init() -> Self {
        Q8E0::init()
    }
    fn limbs_le(&self) -> Vec<u64> {
        vec![self.to_bits() as u64]
    }
    fn from_limbs_le(l: &[u64]) -> Self {
        Q8E0::from_bits(l[0] as u32)
    }
    fn i_is_zero(&self) -> bool {
        Q8E0::is_zero(self)
    }
    fn i_is_nar(&self) -> bool {
        Q8E0::is_nar(self)
    }
    fn i_to_posit(&self) -> P8E0 {
        Q8E0::to_posit(self)
    }
    fn i_from_posit(p: P8E0) -> Self {
        Q8E0::from_posit(p)
    }
    fn i_clear(&mut self) {
        Q8E0::clear(self)
    }
    fn i_neg(&mut self) {
        Q8E0::neg(self)
    }
    fn add_prod(&mut self, a: P8E0, b: P8E0) {
        *self += (a, b)
    }
    fn sub_prod(&mut self, a: P8E0, b: P8E0) {
        *self -= (a, b)
    }
    fn add_one(&mut self, a: P8E0) {
        *self += a
    }
    fn sub_one(&mut self, a: P8E0) {
        *self -= a
    }
}

impl QT for Q16E1 {
    type P = P16E1;
    const NAME: &'static str = "Q16E1";
    const TOTAL_BITS: u32 = 128;
    const FRAC_BITS: u32 = 56;
    fn init() -> Self {
        Q16E1::init()
    }
    fn limbs_le(&self) -> Vec<u64> {
        let b = self.to_bits();
        vec![b as u64, (b >> 64) as u64]
    }
    fn from_limbs_le(l: &[u64]) -> Self {
        Q16E1::from_bits(l[0] as u128 | ((l[1] as u128) << 64))
    }
    fn i_is_zero(&self) -> bool {
        Q16E1::is_zero(self)
    }
    fn i_is_nar(&self) -> bool {
        Q16E1::is_nar(self)
    }
    fn i_to_posit(&self) -> P16E1 {
        Q16E1::to_posit(self)
    }
    fn i_from_posit(p: P16E1) -> Self {
        Q16E1::from_posit(p)
    }
    fn i_clear(&mut self) {
        Q16E1::clear(self)
    }
    fn i_neg(&mut self) {
        Q16E1::neg(self)
    }
    fn add_prod(&mut self, a: P16E1, b: P16E1) {
        *self += (a, b)
    }
    fn sub_prod(&mut self, a: P16E1, b: P16E1) {
        *self -= (a, b)
    }
    fn add_one(&mut self, a: P16E1) {
        *self += a
    }
    fn sub_one(&mut self, a: P16E1) {
        *self -= a
    }
}

impl QT for Q32E2 {
    type P = P32E2;
    const NAME: &'static str = "Q32E2";
    const TOTAL_BITS: u32 = 512;
    const FRAC_BITS: u32 = 240;
    fn init() -> Self {
        Q32E2::init()
    }
    fn limbs_le(&self) -> Vec<u64> {
        // to_bits() is most-significant limb first
        let b = self.to_bits();
        let mut v: Vec<u64> = b.to_vec();
        v.reverse();
        v
    }
    fn from_limbs_le(l: &[u64]) -> Self {
        let mut a = [0u64; 8];
        for i in 0..8 {
            a[i] = l[7 - i];
        }
        Q32E2::from_bits(a)
    }
    fn i_is_zero(&self) -> bool {
        Q32E2::is_zero(self)
    }
    fn i_is_nar(&self) -> bool {
        Q32E2::is_nar(self)
    }
    fn i_to_posit(&self) -> P32E2 {
        Q32E2::to_posit(self)
    }
    fn i_from_posit(p: P32E2) -> Self {
        Q32E2::from_posit(p)
    }
    fn i_clear(&mut self) {
        Q32E2::clear(self)
    }
    fn i_neg(&mut self) {
        Q32E2::neg(self)
    }
    fn add_prod(&mut self, a: P32E2, b: P32E2) {
        *self += (a, b)
    }
    fn sub_prod(&mut self, a: P32E2, b: P32E2) {
        *self -= (a, b)
    }
    fn add_one(&mut self, a: P32E2) {
        *self += a
    }
    fn sub_one(&mut self, a: P32E2) {
        *self -= a
    }
}
