//! A trait over the three fixed-width posit types that forwards to their *inherent* methods,
//! so that monitors can be written once. (The forwarding is trivial; it contains no logic.)

use crate::val::{Fmt, P16, P32, P8};
use softposit::{P16E1, P32E2, P8E0, Q16E1, Q32E2, Q8E0};

pub trait PT:
    Copy
    + Send
    + Sync
    + 'static
    + PartialEq
    + PartialOrd
    + Eq
    + Ord
    + core::fmt::Display
    + core::fmt::Debug
    + core::str::FromStr
    + core::ops::Add<Output = Self>
    + core::ops::Sub<Output = Self>
    + core::ops::Mul<Output = Self>
    + core::ops::Div<Output = Self>
    + core::ops::Rem<Output = Self>
    + core::ops::Neg<Output = Self>
    + core::ops::AddAssign
    + core::ops::SubAssign
    + core::ops::MulAssign
    + core::ops::DivAssign
    + core::ops::RemAssign
    + From<f32>
    + From<f64>
    + From<i8>
    + From<i16>
    + From<i32>
    + From<i64>
    + From<isize>
    + From<u8>
    + From<u16>
    + From<u32>
    + From<u64>
    + From<usize>
    + Into<f32>
    + Into<f64>
    + Into<i8>
    + Into<i16>
    + Into<i32>
    + Into<i64>
    + Into<isize>
    + Into<u8>
    + Into<u16>
    + Into<u32>
    + Into<u64>
    + Into<usize>
    + num_traits::Float
    + num_traits::FloatConst
    + num_traits::Signed
    + num_traits::FromPrimitive
    + num_traits::NumCast
    + softposit::MathConsts
{
    const F: Fmt;
    const NAME: &'static str;
    fn fb(a: u64) -> Self;
    fn tb(self) -> u64;

    fn i_add(self, o: Self) -> Self;
    fn i_sub(self, o: Self) -> Self;
    fn i_mul(self, o: Self) -> Self;
    fn i_div(self, o: Self) -> Self;
    fn i_rem(self, o: Self) -> Self;
    fn i_neg(self) -> Self;
    fn i_abs(self) -> Self;
    fn i_signum(self) -> Self;
    fn i_copysign(self, o: Self) -> Self;
    fn i_min(self, o: Self) -> Self;
    fn i_max(self, o: Self) -> Self;
    fn i_clamp(self, lo: Self, hi: Self) -> Self;
    fn i_eq(self, o: Self) -> bool;
    fn i_lt(self, o: Self) -> bool;
    fn i_le(self, o: Self) -> bool;
    fn i_gt(self, o: Self) -> bool;
    fn i_ge(self, o: Self) -> bool;
    fn i_cmp(self, o: Self) -> core::cmp::Ordering;
    fn i_is_zero(self) -> bool;
    fn i_is_nar(self) -> bool;
    fn i_is_nan(self) -> bool;
    fn i_is_finite(self) -> bool;
    fn i_is_infinite(self) -> bool;
    fn i_is_normal(self) -> bool;
    fn i_is_sign_positive(self) -> bool;
    fn i_is_sign_negative(self) -> bool;
    fn i_classify(self) -> core::num::FpCategory;
    fn i_mul_add(self, b: Self, c: Self) -> Self;
    fn i_mul_sub(self, b: Self, c: Self) -> Self;
    fn i_sub_product(self, a: Self, b: Self) -> Self;
    fn i_sqrt(self) -> Self;
    fn i_round(self) -> Self;
    fn i_floor(self) -> Self;
    fn i_ceil(self) -> Self;
    fn i_trunc(self) -> Self;
    fn i_fract(self) -> Self;
    fn i_recip(self) -> Self;
    fn i_div_euclid(self, o: Self) -> Self;
    fn i_rem_euclid(self, o: Self) -> Self;
    fn i_from_f32(x: f32) -> Self;
    fn i_from_f64(x: f64) -> Self;
    fn i_to_f32(self) -> f32;
    fn i_to_f64(self) -> f64;
    fn i_from_i8(x: i8) -> Self;
    fn i_from_i16(x: i16) -> Self;
    fn i_from_i32(x: i32) -> Self;
    fn i_from_i64(x: i64) -> Self;
    fn i_from_isize(x: isize) -> Self;
    fn i_from_u8(x: u8) -> Self;
    fn i_from_u16(x: u16) -> Self;
    fn i_from_u32(x: u32) -> Self;
    fn i_from_u64(x: u64) -> Self;
    fn i_from_usize(x: usize) -> Self;
    fn i_to_i8(self) -> i8;
    fn i_to_i16(self) -> i16;
    fn i_to_i32(self) -> i32;
    fn i_to_i64(self) -> i64;
    fn i_to_isize(self) -> isize;
    fn i_to_u8(self) -> u8;
    fn i_to_u16(self) -> u16;
    fn i_to_u32(self) -> u32;
    fn i_to_u64(self) -> u64;
    fn i_to_usize(self) -> usize;
    fn i_asinh(self) -> Self;
    fn i_acosh(self) -> Self;
    fn c_zero() -> Self;
    fn c_one() -> Self;
    fn c_nar() -> Self;
    fn c_min() -> Self;
    fn c_max() -> Self;
    fn c_min_positive() -> Self;
    fn c_epsilon() -> Self;
}

macro_rules! impl_pt {
    ($T:ty, $F:expr, $name:literal, $U:ty) => {
        impl PT for $T {
            const F: Fmt = $F;
            const NAME: &'static str = $name;
            #[inline(always)]
            fn fb(a: u64) -> Self {
                <$T>::from_bits(a as $U)
            }
            #[inline(always)]
            fn tb(self) -> u64 {
                <$T>::to_bits(self) as u64
            }
            #[inline(always)]
            fn i_add(self, o: Self) -> Self {
                <$T>::add(self, o)
            }
            #[inline(always)]
            fn i_sub(self, o: Self) -> Self {
                <$T>::sub(self, o)
            }
            #[inline(always)]
            fn i_mul(self, o: Self) -> Self {
                <$T>::mul(self, o)
            }
            #[inline(always)]
            fn i_div(self, o: Self) -> Self {
                <$T>::div(self, o)
            }
            fn i_rem(self, o: Self) -> Self {
                <$T>::rem(self, o)
            }
            #[inline(always)]
            fn i_neg(self) -> Self {
                <$T>::neg(self)
            }
            fn i_abs(self) -> Self {
                <$T>::abs(self)
            }
            fn i_signum(self) -> Self {
                <$T>::signum(self)
            }
            fn i_copysign(self, o: Self) -> Self {
                <$T>::copysign(self, o)
            }
            fn i_min(self, o: Self) -> Self {
                <$T>::min(self, o)
            }
            fn i_max(self, o: Self) -> Self {
                <$T>::max(self, o)
            }
            fn i_clamp(self, lo: Self, hi: Self) -> Self {
                <$T>::clamp(self, lo, hi)
            }
            fn i_eq(self, o: Self) -> bool {
                <$T>::eq(self, o)
            }
            fn i_lt(self, o: Self) -> bool {
                <$T>::lt(&self, o)
            }
            fn i_le(self, o: Self) -> bool {
                <$T>::le(&self, o)
            }
            fn i_gt(self, o: Self) -> bool {
                <$T>::gt(&self, o)
            }
            fn i_ge(self, o: Self) -> bool {
                <$T>::ge(&self, o)
            }
            fn i_cmp(self, o: Self) -> core::cmp::Ordering {
                <$T>::cmp(self, o)
            }
            fn i_is_zero(self) -> bool {
                <$T>::is_zero(self)
            }
            fn i_is_nar(self) -> bool {
                <$T>::is_nar(self)
            }
            fn i_is_nan(self) -> bool {
                <$T>::is_nan(self)
            }
            fn i_is_finite(self) -> bool {
                <$T>::is_finite(self)
            }
            fn i_is_infinite(self) -> bool {
                <$T>::is_infinite(self)
            }
            fn i_is_normal(self) -> bool {
                <$T>::is_normal(self)
            }
            fn i_is_sign_positive(self) -> bool {
                <$T>::is_sign_positive(self)
            }
            fn i_is_sign_negative(self) -> bool {
                <$T>::is_sign_negative(self)
            }
            fn i_classify(self) -> core::num::FpCategory {
                <$T>::classify(self)
            }
            #[inline(always)]
            fn i_mul_add(self, b: Self, c: Self) -> Self {
                <$T>::mul_add(self, b, c)
            }
            #[inline(always)]
            fn i_mul_sub(self, b: Self, c: Self) -> Self {
                <$T>::mul_sub(self, b, c)
            }
            #[inline(always)]
            fn i_sub_product(self, a: Self, b: Self) -> Self {
                <$T>::sub_product(self, a, b)
            }
            #[inline(always)]
            fn i_sqrt(self) -> Self {
                <$T>::sqrt(self)
            }
            fn i_round(self) -> Self {
                <$T>::round(self)
            }
            fn i_floor(self) -> Self {
                <$T>::floor(self)
            }
            fn i_ceil(self) -> Self {
                <$T>::ceil(self)
            }
            fn i_trunc(self) -> Self {
                <$T>::trunc(self)
            }
            fn i_fract(self) -> Self {
                <$T>::fract(self)
            }
            fn i_recip(self) -> Self {
                <$T>::recip(self)
            }
            fn i_div_euclid(self, o: Self) -> Self {
                <$T>::div_euclid(self, o)
            }
            fn i_rem_euclid(self, o: Self) -> Self {
                <$T>::rem_euclid(self, o)
            }
            #[inline(always)]
            fn i_from_f32(x: f32) -> Self {
                <$T>::from_f32(x)
            }
            #[inline(always)]
            fn i_from_f64(x: f64) -> Self {
                <$T>::from_f64(x)
            }
            #[inline(always)]
            fn i_to_f32(self) -> f32 {
                <$T>::to_f32(self)
            }
            #[inline(always)]
            fn i_to_f64(self) -> f64 {
                <$T>::to_f64(self)
            }
            fn i_from_i8(x: i8) -> Self {
                <$T>::from_i8(x)
            }
            fn i_from_i16(x: i16) -> Self {
                <$T>::from_i16(x)
            }
            fn i_from_i32(x: i32) -> Self {
                <$T>::from_i32(x)
            }
            fn i_from_i64(x: i64) -> Self {
                <$T>::from_i64(x)
            }
            fn i_from_isize(x: isize) -> Self {
                <$T>::from_isize(x)
            }
            fn i_from_u8(x: u8) -> Self {
                <$T>::from_u8(x)
            }
            fn i_from_u16(x: u16) -> Self {
                <$T>::from_u16(x)
            }
            fn i_from_u32(x: u32) -> Self {
                <$T>::from_u32(x)
            }
            fn i_from_u64(x: u64) -> Self {
                <$T>::from_u64(x)
            }
            fn i_from_usize(x: usize) -> Self {
                <$T>::from_usize(x)
            }
            fn i_to_i8(self) -> i8 {
                <$T>::to_i8(self)
            }
            fn i_to_i16(self) -> i16 {
                <$T>::to_i16(self)
            }
            fn i_to_i32(self) -> i32 {
                <$T>::to_i32(self)
            }
            fn i_to_i64(self) -> i64 {
                <$T>::to_i64(self)
            }
            fn i_to_isize(self) -> isize {
                <$T>::to_isize(self)
            }
            fn i_to_u8(self) -> u8 {
                <$T>::to_u8(self)
            }
            fn i_to_u16(self) -> u16 {
                <$T>::to_u16(self)
            }
            fn i_to_u32(self) -> u32 {
                <$T>::to_u32(self)
            }
            fn i_to_u64(self) -> u64 {
                <$T>::to_u64(self)
            }
            fn i_to_usize(self) -> usize {
                <$T>::to_usize(self)
            }
            fn i_asinh(self) -> Self {
                <$T>::asinh(self)
            }
            fn i_acosh(self) -> Self {
                <$T>::acosh(self)
            }
            fn c_zero() -> Self {
                <$T>::ZERO
            }
            fn c_one() -> Self {
                <$T>::ONE
            }
            fn c_nar() -> Self {
                <$T>::NAR
            }
            fn c_min() -> Self {
                <$T>::MIN
            }
            fn c_max() -> Self {
                <$T>::MAX
            }
            fn c_min_positive() -> Self {
                <$T>::MIN_POSITIVE
            }
            fn c_epsilon() -> Self {
                <$T>::EPSILON
            }
        }
    };
}

impl_pt!(P8E0, P8, "P8E0", u8);
impl_pt!(P16E1, P16, "P16E1", u16);
impl_pt!(P32E2, P32, "P32E2", u32);

/// quire trait for monitors: forwards to inherent methods / operator impls of the three quires
pub trait QT: Send + Sync + 'static + Sized {
    type P: PT;
    const NAME: &'static str;
    const TOTAL_BITS: u32;
    const FRAC_BITS: u32;
    fn init() -> Self;
    /// little-endian 64-bit limbs of the bit image
    fn limbs_le(&self) -> Vec<u64>;
    fn from_limbs_le(l: &[u64]) -> Self;
    fn dup(&self) -> Self {
        Self::from_limbs_le(&self.limbs_le())
    }
    fn i_is_zero(&self) -> bool;
    fn i_is_nar(&self) -> bool;
    fn i_to_posit(&self) -> Self::P;
    fn i_from_posit(p: Self::P) -> Self;
    fn from_trait(p: Self::P) -> Self;
    fn i_clear(&mut self);
    fn i_neg(&mut self);
    fn display_string(&self) -> String;
    fn into_posit_by_ref(&self) -> Self::P;
    fn into_posit_by_value(self) -> Self::P;
    fn i_into_two(self) -> (Self::P, Self::P);
    fn i_into_three(self) -> (Self::P, Self::P, Self::P);
    // accumulate spellings
    fn add_prod(&mut self, a: Self::P, b: Self::P);
    fn sub_prod(&mut self, a: Self::P, b: Self::P);
    fn add_one(&mut self, a: Self::P);
    fn sub_one(&mut self, a: Self::P);
    fn m_add_product(&mut self, a: Self::P, b: Self::P);
    fn m_sub_product(&mut self, a: Self::P, b: Self::P);
    fn add_t2(&mut self, a: Self::P, b: Self::P, c: Self::P);
    fn sub_t2(&mut self, a: Self::P, b: Self::P, c: Self::P);
    fn add_t3(&mut self, a: Self::P, b: Self::P, c: Self::P, d: Self::P);
    fn add_pairs(&mut self, a: Self::P, b: Self::P, c: Self::P, d: Self::P);
    fn sub_pairs(&mut self, a: Self::P, b: Self::P, c: Self::P, d: Self::P);
    fn add_arr(&mut self, a: Self::P, v: &[Self::P]);
    fn sub_arr(&mut self, a: Self::P, v: &[Self::P]);
    // Quire trait spellings (C17)
    fn t_init() -> Self;
    fn t_from_posit(p: Self::P) -> Self;
    fn t_to_posit(&self) -> Self::P;
    fn t_is_zero(&self) -> bool;
    fn t_is_nar(&self) -> bool;
    fn t_add_product(&mut self, a: Self::P, b: Self::P);
    fn t_sub_product(&mut self, a: Self::P, b: Self::P);
    fn t_clear(&mut self);
    fn t_neg(&mut self);
    fn t_bits_roundtrip(&self) -> Self;
    /// the quire type reached through AssociatedQuire of the posit type
    fn assoc_init_limbs() -> Vec<u64>;
}

macro_rules! impl_qt {
    ($Q:ty, $P:ty, $name:literal, $total:expr, $frac:expr, $to_limbs:expr, $from_limbs:expr) => {
        impl QT for $Q {
            type P = $P;
            const NAME: &'static str = $name;
            const TOTAL_BITS: u32 = $total;
            const FRAC_BITS: u32 = $frac;
            fn init() -> Self {
                <$Q>::init()
            }
            fn limbs_le(&self) -> Vec<u64> {
                let f: fn(&$Q) -> Vec<u64> = $to_limbs;
                f(self)
            }
            fn from_limbs_le(l: &[u64]) -> Self {
                let f: fn(&[u64]) -> $Q = $from_limbs;
                f(l)
            }
            fn i_is_zero(&self) -> bool {
                <$Q>::is_zero(self)
            }
            fn i_is_nar(&self) -> bool {
                <$Q>::is_nar(self)
            }
            fn i_to_posit(&self) -> $P {
                <$Q>::to_posit(self)
            }
            fn i_from_posit(p: $P) -> Self {
                <$Q>::from_posit(p)
            }
            fn from_trait(p: $P) -> Self {
                <$Q as From<$P>>::from(p)
            }
            fn i_clear(&mut self) {
                <$Q>::clear(self)
            }
            fn i_neg(&mut self) {
                <$Q>::neg(self)
            }
            fn display_string(&self) -> String {
                format!("{} {:?}", self, self)
            }
            fn into_posit_by_ref(&self) -> $P {
                <$P as From<&$Q>>::from(self)
            }
            fn into_posit_by_value(self) -> $P {
                <$P as From<$Q>>::from(self)
            }
            fn i_into_two(self) -> ($P, $P) {
                <$Q>::into_two_posits(self)
            }
            fn i_into_three(self) -> ($P, $P, $P) {
                <$Q>::into_three_posits(self)
            }
            fn add_prod(&mut self, a: $P, b: $P) {
                *self += (a, b)
            }
            fn sub_prod(&mut self, a: $P, b: $P) {
                *self -= (a, b)
            }
            fn add_one(&mut self, a: $P) {
                *self += a
            }
            fn sub_one(&mut self, a: $P) {
                *self -= a
            }
            fn m_add_product(&mut self, a: $P, b: $P) {
                <$Q>::add_product(self, a, b)
            }
            fn m_sub_product(&mut self, a: $P, b: $P) {
                <$Q>::sub_product(self, a, b)
            }
            fn add_t2(&mut self, a: $P, b: $P, c: $P) {
                *self += (a, (b, c))
            }
            fn sub_t2(&mut self, a: $P, b: $P, c: $P) {
                *self -= (a, (b, c))
            }
            fn add_t3(&mut self, a: $P, b: $P, c: $P, d: $P) {
                *self += (a, (b, c, d))
            }
            fn add_pairs(&mut self, a: $P, b: $P, c: $P, d: $P) {
                *self += ((a, b), (c, d))
            }
            fn sub_pairs(&mut self, a: $P, b: $P, c: $P, d: $P) {
                *self -= ((a, b), (c, d))
            }
            fn add_arr(&mut self, a: $P, v: &[$P]) {
                match v.len() {
                    1 => *self += (a, [v[0]]),
                    2 => *self += (a, [v[0], v[1]]),
                    3 => *self += (a, [v[0], v[1], v[2]]),
                    _ => *self += (a, [v[0], v[1], v[2], v[3]]),
                }
            }
            fn sub_arr(&mut self, a: $P, v: &[$P]) {
                match v.len() {
                    1 => *self -= (a, [v[0]]),
                    2 => *self -= (a, [v[0], v[1]]),
                    3 => *self -= (a, [v[0], v[1], v[2]]),
                    _ => *self -= (a, [v[0], v[1], v[2], v[3]]),
                }
            }
            fn t_init() -> Self {
                <$Q as softposit::Quire<$P>>::init()
            }
            fn t_from_posit(p: $P) -> Self {
                <$Q as softposit::Quire<$P>>::from_posit(p)
            }
            fn t_to_posit(&self) -> $P {
                <$Q as softposit::Quire<$P>>::to_posit(self)
            }
            fn t_is_zero(&self) -> bool {
                <$Q as softposit::Quire<$P>>::is_zero(self)
            }
            fn t_is_nar(&self) -> bool {
                <$Q as softposit::Quire<$P>>::is_nar(self)
            }
            fn t_add_product(&mut self, a: $P, b: $P) {
                <$Q as softposit::Quire<$P>>::add_product(self, a, b)
            }
            fn t_sub_product(&mut self, a: $P, b: $P) {
                <$Q as softposit::Quire<$P>>::sub_product(self, a, b)
            }
            fn t_clear(&mut self) {
                <$Q as softposit::Quire<$P>>::clear(self)
            }
            fn t_neg(&mut self) {
                <$Q as softposit::Quire<$P>>::neg(self)
            }
            fn t_bits_roundtrip(&self) -> Self {
                <$Q as softposit::Quire<$P>>::from_bits(<$Q as softposit::Quire<$P>>::to_bits(self))
            }
            fn assoc_init_limbs() -> Vec<u64> {
                let q = <<$P as softposit::AssociatedQuire<$P>>::Q as softposit::Quire<$P>>::init();
                // AssociatedQuire::Q must be this very type
                let q: $Q = q;
                q.limbs_le()
            }
        }
    };
}

impl_qt!(
    Q8E0,
    P8E0,
    "Q8E0",
    32,
    12,
    |q| vec![q.to_bits() as u64],
    |l| Q8E0::from_bits(l[0] as u32)
);
impl_qt!(
    Q16E1,
    P16E1,
    "Q16E1",
    128,
    56,
    |q| {
        let b = q.to_bits();
        vec![b as u64, (b >> 64) as u64]
    },
    |l| Q16E1::from_bits(l[0] as u128 | ((l[1] as u128) << 64))
);
impl_qt!(
    Q32E2,
    P32E2,
    "Q32E2",
    512,
    240,
    |q| {
        // to_bits() is most-significant limb first
        let mut v: Vec<u64> = q.to_bits().to_vec();
        v.reverse();
        v
    },
    |l| {
        let mut a = [0u64; 8];
        for i in 0..8 {
            a[i] = l[7 - i];
        }
        Q32E2::from_bits(a)
    }
);
