//! Minimal arbitrary-precision unsigned integer (little-endian u64 limbs).
//! Written for the oracle only: clarity over speed. No dependency on the crate under test.

use std::cmp::Ordering;

#[derive(Clone, Debug, PartialEq, Eq)]
pub struct BigUint {
    // invariant: no trailing (most significant) zero limbs; zero == empty vec
    d: Vec<u64>,
}

impl BigUint {
    pub fn zero() -> Self {
        BigUint { d: Vec::new() }
    }
    pub fn from_u64(v: u64) -> Self {
        if v == 0 {
            Self::zero()
        } else {
            BigUint { d: vec![v] }
        }
    }
    pub fn from_u128(v: u128) -> Self {
        let mut r = BigUint {
            d: vec![v as u64, (v >> 64) as u64],
        };
        r.trim();
        r
    }
    pub fn from_limbs_le(l: &[u64]) -> Self {
        let mut r = BigUint { d: l.to_vec() };
        r.trim();
        r
    }
    pub fn limbs(&self) -> &[u64] {
        &self.d
    }
    fn trim(&mut self) {
        while let Some(&0) = self.d.last() {
            self.d.pop();
        }
    }
    pub fn is_zero(&self) -> bool {
        self.d.is_empty()
    }
    /// number of significant bits (0 for zero)
    pub fn bits(&self) -> u64 {
        match self.d.last() {
            None => 0,
            Some(&top) => (self.d.len() as u64) * 64 - top.leading_zeros() as u64,
        }
    }
    pub fn bit(&self, i: u64) -> bool {
        let l = (i / 64) as usize;
        if l >= self.d.len() {
            false
        } else {
            (self.d[l] >> (i % 64)) & 1 == 1
        }
    }
    pub fn trailing_zeros(&self) -> u64 {
        for (i, &l) in self.d.iter().enumerate() {
            if l != 0 {
                return i as u64 * 64 + l.trailing_zeros() as u64;
            }
        }
        0
    }
    /// true if any of the low `n` bits is set
    pub fn low_bits_nonzero(&self, n: u64) -> bool {
        if n == 0 {
            return false;
        }
        let full = (n / 64) as usize;
        for i in 0..full.min(self.d.len()) {
            if self.d[i] != 0 {
                return true;
            }
        }
        let rem = n % 64;
        if rem != 0 && full < self.d.len() {
            if self.d[full] & ((1u64 << rem) - 1) != 0 {
                return true;
            }
        }
        false
    }
    pub fn to_u64(&self) -> Option<u64> {
        match self.d.len() {
            0 => Some(0),
            1 => Some(self.d[0]),
            _ => None,
        }
    }
    pub fn to_u128(&self) -> Option<u128> {
        match self.d.len() {
            0 => Some(0),
            1 => Some(self.d[0] as u128),
            2 => Some(self.d[0] as u128 | ((self.d[1] as u128) << 64)),
            _ => None,
        }
    }
    pub fn shl(&self, n: u64) -> Self {
        if self.is_zero() {
            return Self::zero();
        }
        let limbs = (n / 64) as usize;
        let bits = (n % 64) as u32;
        let mut d = vec![0u64; limbs];
        if bits == 0 {
            d.extend_from_slice(&self.d);
        } else {
            let mut carry = 0u64;
            for &l in &self.d {
                d.push((l << bits) | carry);
                carry = l >> (64 - bits);
            }
            if carry != 0 {
                d.push(carry);
            }
        }
        let mut r = BigUint { d };
        r.trim();
        r
    }
    pub fn shr(&self, n: u64) -> Self {
        let limbs = (n / 64) as usize;
        if limbs >= self.d.len() {
            return Self::zero();
        }
        let bits = (n % 64) as u32;
        let src = &self.d[limbs..];
        let mut d = Vec::with_capacity(src.len());
        if bits == 0 {
            d.extend_from_slice(src);
        } else {
            for i in 0..src.len() {
                let hi = if i + 1 < src.len() { src[i + 1] } else { 0 };
                d.push((src[i] >> bits) | (hi << (64 - bits)));
            }
        }
        let mut r = BigUint { d };
        r.trim();
        r
    }
    pub fn add(&self, o: &Self) -> Self {
        let (a, b) = if self.d.len() >= o.d.len() {
            (&self.d, &o.d)
        } else {
            (&o.d, &self.d)
        };
        let mut d = Vec::with_capacity(a.len() + 1);
        let mut carry = 0u128;
        for i in 0..a.len() {
            let s = a[i] as u128 + if i < b.len() { b[i] as u128 } else { 0 } + carry;
            d.push(s as u64);
            carry = s >> 64;
        }
        if carry != 0 {
            d.push(carry as u64);
        }
        BigUint { d }
    }
    /// self - o; panics if o > self (an oracle bug)
    pub fn sub(&self, o: &Self) -> Self {
        assert!(self.cmp(o) != Ordering::Less, "BigUint::sub underflow");
        let mut d = Vec::with_capacity(self.d.len());
        let mut borrow = 0i128;
        for i in 0..self.d.len() {
            let mut s = self.d[i] as i128 - if i < o.d.len() { o.d[i] as i128 } else { 0 } - borrow;
            if s < 0 {
                s += 1i128 << 64;
                borrow = 1;
            } else {
                borrow = 0;
            }
            d.push(s as u64);
        }
        assert!(borrow == 0);
        let mut r = BigUint { d };
        r.trim();
        r
    }
    pub fn mul(&self, o: &Self) -> Self {
        if self.is_zero() || o.is_zero() {
            return Self::zero();
        }
        let mut d = vec![0u64; self.d.len() + o.d.len()];
        for i in 0..self.d.len() {
            let mut carry = 0u128;
            for j in 0..o.d.len() {
                let t = self.d[i] as u128 * o.d[j] as u128 + d[i + j] as u128 + carry;
                d[i + j] = t as u64;
                carry = t >> 64;
            }
            let mut k = i + o.d.len();
            while carry != 0 {
                let t = d[k] as u128 + carry;
                d[k] = t as u64;
                carry = t >> 64;
                k += 1;
            }
        }
        let mut r = BigUint { d };
        r.trim();
        r
    }
    pub fn cmp(&self, o: &Self) -> Ordering {
        if self.d.len() != o.d.len() {
            return self.d.len().cmp(&o.d.len());
        }
        for i in (0..self.d.len()).rev() {
            if self.d[i] != o.d[i] {
                return self.d[i].cmp(&o.d[i]);
            }
        }
        Ordering::Equal
    }
    /// (quotient, remainder); schoolbook binary long division (slow, simple, obviously right)
    pub fn divrem(&self, o: &Self) -> (Self, Self) {
        assert!(!o.is_zero(), "BigUint division by zero");
        if self.cmp(o) == Ordering::Less {
            return (Self::zero(), self.clone());
        }
        let nb = self.bits();
        let mut q = vec![0u64; self.d.len()];
        let mut r = Self::zero();
        for i in (0..nb).rev() {
            r = r.shl(1);
            if self.bit(i) {
                if r.d.is_empty() {
                    r.d.push(1);
                } else {
                    r.d[0] |= 1;
                }
            }
            if r.cmp(o) != Ordering::Less {
                r = r.sub(o);
                q[(i / 64) as usize] |= 1u64 << (i % 64);
            }
        }
        let mut q = BigUint { d: q };
        q.trim();
        (q, r)
    }
    /// floor(sqrt(self)) and whether it is exact
    pub fn isqrt(&self) -> (Self, bool) {
        if self.is_zero() {
            return (Self::zero(), true);
        }
        // bit-by-bit: find largest r with r*r <= self
        let nb = (self.bits() + 1) / 2;
        let mut r = Self::zero();
        for i in (0..nb).rev() {
            let cand = r.add(&Self::from_u64(1).shl(i));
            if cand.mul(&cand).cmp(self) != Ordering::Greater {
                r = cand;
            }
        }
        let exact = r.mul(&r).cmp(self) == Ordering::Equal;
        (r, exact)
    }
    pub fn to_hex(&self) -> String {
        if self.is_zero() {
            return "0".into();
        }
        let mut s = String::new();
        for (i, l) in self.d.iter().rev().enumerate() {
            if i == 0 {
                s.push_str(&format!("{:x}", l));
            } else {
                s.push_str(&format!("{:016x}", l));
            }
        }
        s
    }
}

#[cfg(test)]
mod tests {
    use super::*;
    #[test]
    fn basic() {
        let a = BigUint::from_u128(0xffff_ffff_ffff_ffff_ffff_ffff_ffff_ffff);
        let b = a.add(&BigUint::from_u64(1));
        assert_eq!(b.bits(), 129);
        assert_eq!(b.sub(&BigUint::from_u64(1)), a);
        let c = a.mul(&a);
        let (q, r) = c.divrem(&a);
        assert_eq!(q, a);
        assert!(r.is_zero());
        let (s, e) = c.isqrt();
        assert_eq!(s, a);
        assert!(e);
        let (s2, e2) = c.add(&BigUint::from_u64(5)).isqrt();
        assert_eq!(s2, a);
        assert!(!e2);
        assert_eq!(a.shl(77).shr(77), a);
        assert_eq!(a.shl(64).shr(3).shl(3).shr(64), a);
        let (q, r) = BigUint::from_u128(1000000007u128 * 998244353 + 12345).divrem(&BigUint::from_u64(998244353));
        assert_eq!(q.to_u64(), Some(1000000007));
        assert_eq!(r.to_u64(), Some(12345));
    }
}
