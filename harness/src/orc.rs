//! Slow (authoritative) oracle entry points on patterns, built on `val.rs`.

use crate::val::{Fmt, Val};
use std::cmp::Ordering;

pub fn dec(f: Fmt, p: u64) -> Val {
    Val::decode(f, p)
}
pub fn enc(f: Fmt, v: &Val) -> u64 {
    v.encode_bits(f)
}
pub fn add(f: Fmt, a: u64, b: u64) -> u64 {
    enc(f, &dec(f, a).add(&dec(f, b)))
}
pub fn sub(f: Fmt, a: u64, b: u64) -> u64 {
    enc(f, &dec(f, a).sub(&dec(f, b)))
}
pub fn mul(f: Fmt, a: u64, b: u64) -> u64 {
    enc(f, &dec(f, a).mul(&dec(f, b)))
}
pub fn div(f: Fmt, a: u64, b: u64) -> u64 {
    enc(f, &dec(f, a).div(&dec(f, b)))
}
pub fn sqrt(f: Fmt, a: u64) -> u64 {
    enc(f, &dec(f, a).sqrt())
}
/// mode 0: a*b+c, 1: a*b-c, 2: c-a*b
pub fn fma(f: Fmt, a: u64, b: u64, c: u64, mode: u32) -> u64 {
    let p = dec(f, a).mul(&dec(f, b));
    let cv = dec(f, c);
    let r = match mode {
        0 => p.add(&cv),
        1 => p.sub(&cv),
        _ => cv.sub(&p),
    };
    enc(f, &r)
}
pub fn convert(from: Fmt, to: Fmt, a: u64) -> u64 {
    enc(to, &dec(from, a))
}
pub fn from_f64(f: Fmt, bits: u64) -> u64 {
    enc(f, &Val::from_f64(f64::from_bits(bits)))
}
pub fn from_f32(f: Fmt, bits: u32) -> u64 {
    enc(f, &Val::from_f32(f32::from_bits(bits)))
}
pub fn from_int(f: Fmt, v: i128) -> u64 {
    enc(f, &Val::from_i128(v))
}
pub fn to_int(f: Fmt, p: u64, lo: i128, hi: i128) -> Option<i128> {
    dec(f, p).to_int_rne_clamped(lo, hi)
}
pub fn cmp(f: Fmt, a: u64, b: u64) -> Ordering {
    dec(f, a).cmp(&dec(f, b))
}
pub fn ord_code(o: Ordering) -> u64 {
    match o {
        Ordering::Less => 0,
        Ordering::Equal => 1,
        Ordering::Greater => 2,
    }
}

/// canonicalise NaNs so that "any NaN" compares equal
pub fn canon_f64(b: u64) -> u64 {
    if f64::from_bits(b).is_nan() {
        crate::fast::F64_NAN
    } else {
        b
    }
}
pub fn canon_f32(b: u32) -> u32 {
    if f32::from_bits(b).is_nan() {
        crate::fast::F32_NAN
    } else {
        b
    }
}
