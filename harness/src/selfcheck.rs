//! Oracle self-checks executed by every run before any verdict is believed (DESIGN §3.3).

use crate::fast;
use crate::gen;
use crate::json::J;
use crate::rng::Rng;
use crate::val::{Fmt, Val, P16, P32, P8};
use std::cmp::Ordering;

pub struct SelfCheck {
    pub json: J,
    pub errors: Vec<String>,
}

fn formats() -> Vec<Fmt> {
    let mut v = vec![P8, P16, P32];
    for n in [2u32, 3, 4, 5, 7, 9, 12, 13, 17, 24, 31] {
        v.push(Fmt { n, es: 1 });
        v.push(Fmt { n, es: 2 });
    }
    v
}

pub fn run(seed: u64, samples_per_format: u64) -> SelfCheck {
    let mut errors = Vec::new();
    let mut j = J::obj();
    let mut n_round = 0u64;
    let mut n_enc = 0u64;
    let mut n_mono = 0u64;
    let mut n_ops = 0u64;
    for f in formats() {
        // round trip + monotonicity: all patterns for n <= 16, a sample otherwise
        let mut rng = Rng::new(seed, 0x5e1f_0000 + f.n as u64 * 4 + f.es as u64);
        let all = f.n <= 16;
        let count = if all { 1u64 << f.n } else { samples_per_format };
        let mut prev: Option<(u64, Val)> = None;
        for i in 0..count {
            let p = if all { i } else { gen::pat(&mut rng, f) };
            let v = Val::decode(f, p);
            let e1 = v.encode_bits(f);
            let e2 = v.encode_search(f);
            let e3 = fast::encode(f, fast::decode(f, p as u32)) as u64;
            if e1 != p || e2 != p || e3 != p {
                if errors.len() < 8 {
                    errors.push(format!(
                        "round trip fmt({},{}) p={:#x}: bits {:#x} search {:#x} fast {:#x}",
                        f.n, f.es, p, e1, e2, e3
                    ));
                }
            }
            n_round += 1;
            if all {
                // monotone in two's-complement order (excluding NaR)
                let signed = ((p << (64 - f.n)) as i64) >> (64 - f.n);
                let _ = signed;
                if let Some((pp, pv)) = &prev {
                    // walk patterns in signed order: nar+1 .. maxpos  == unsigned order from nar+1 wrapping
                    let _ = (pp, pv);
                }
                prev = Some((p, v));
            }
        }
        if all {
            // explicit monotonicity walk in signed order
            let start = f.nar() + 1;
            let mut last = Val::decode(f, start);
            for k in 1..(f.mask()) {
                let p = (start + k) & f.mask();
                if p == f.nar() {
                    break;
                }
                let v = Val::decode(f, p);
                if last.cmp(&v) != Ordering::Less {
                    if errors.len() < 8 {
                        errors.push(format!("decode not monotone at fmt({},{}) p={:#x}", f.n, f.es, p));
                    }
                }
                last = v;
                n_mono += 1;
            }
        }
        // encoders agree on arbitrary values: products, quotients, sums, roots, ties, saturation
        for _ in 0..samples_per_format {
            let a = gen::pat(&mut rng, f);
            let b = gen::partner(&mut rng, f, a);
            let va = Val::decode(f, a);
            let vb = Val::decode(f, b);
            let which = rng.below(6);
            let (v, fv) = match which {
                0 => (va.add(&vb), fast::add(fast::decode(f, a as u32), fast::decode(f, b as u32))),
                1 => (va.sub(&vb), fast::add(fast::decode(f, a as u32), fast::negate(fast::decode(f, b as u32)))),
                2 => (va.mul(&vb), fast::mul(fast::decode(f, a as u32), fast::decode(f, b as u32))),
                3 => (va.div(&vb), fast::div(fast::decode(f, a as u32), fast::decode(f, b as u32))),
                4 => (va.sqrt(), fast::sqrt(fast::decode(f, a as u32))),
                _ => {
                    // exact tie / near-tie construction: midpoint of (n+1)-bit format, +- tiny
                    let f1 = Fmt { n: f.n + 1, es: f.es };
                    let mid = Val::decode(f1, ((a << 1) | 1) & f1.mask());
                    let eps = Val::pow2(-400);
                    let v = match rng.below(3) {
                        0 => mid,
                        1 => mid.add(&eps),
                        _ => mid.sub(&eps),
                    };
                    let e1 = v.encode_bits(f);
                    let e2 = v.encode_search(f);
                    if e1 != e2 && errors.len() < 8 {
                        errors.push(format!(
                            "encoders disagree at constructed tie fmt({},{}) {}: bits {:#x} search {:#x}",
                            f.n,
                            f.es,
                            v.describe(),
                            e1,
                            e2
                        ));
                    }
                    n_enc += 1;
                    continue;
                }
            };
            let e1 = v.encode_bits(f);
            let e2 = v.encode_search(f);
            let e3 = fast::encode(f, fv) as u64;
            if e1 != e2 || e1 != e3 {
                if errors.len() < 8 {
                    errors.push(format!(
                        "encoders disagree fmt({},{}) op{} a={:#x} b={:#x}: bits {:#x} search {:#x} fast {:#x}",
                        f.n, f.es, which, a, b, e1, e2, e3
                    ));
                }
            }
            n_ops += 1;
        }
    }
    // IEEE encoder against the hardware on exactly representable and rounded values
    let mut rng = Rng::new(seed, 0x1eee);
    let mut n_ieee = 0u64;
    for _ in 0..samples_per_format {
        let b = gen::f64_bits(&mut rng, P32);
        let x = f64::from_bits(b);
        if x.is_nan() {
            continue;
        }
        let v = Val::from_f64(x);
        if v.is_nar() {
            continue;
        }
        let (b2, ex) = v.to_f64_bits();
        if b2 != b && !(x == 0.0) || !ex {
            if errors.len() < 8 {
                errors.push(format!("f64 round trip {:#x} -> {:#x}", b, b2));
            }
        }
        let (b3, _) = v.to_f32_bits();
        let hw = (x as f32).to_bits();
        if b3 != hw && x != 0.0 {
            if errors.len() < 8 {
                errors.push(format!("f32 encode of {:#x}: oracle {:#x} hardware {:#x}", b, b3, hw));
            }
        }
        // fast path floats
        let fv = fast::from_f64_bits(b);
        let e1 = v.encode_bits(P32);
        let e3 = fast::encode(P32, fv) as u64;
        if e1 != e3 && errors.len() < 8 {
            errors.push(format!("fast from_f64 {:#x}: slow {:#x} fast {:#x}", b, e1, e3));
        }
        n_ieee += 1;
    }
    j.set("pattern_round_trips", J::u(n_round));
    j.set("monotonicity_steps", J::u(n_mono));
    j.set("three_encoder_agreements_on_op_results", J::u(n_ops));
    j.set("two_encoder_agreements_on_constructed_ties", J::u(n_enc));
    j.set("ieee_encoder_vs_hardware", J::u(n_ieee));
    j.set("errors", J::u(errors.len() as u64));
    SelfCheck { json: j, errors }
}


/// End-to-end canary: a 10-bit posit addition with an error planted on a known set of operand
/// pairs is pushed through the same sweep / compare / confirm / report path as the real
/// operations. The sweep has to report exactly the planted pairs - a monitor that silently
/// stopped comparing (or an oracle compared with itself) would report none and the run would be
/// refused as a harness error instead of passing for the wrong reason.
pub fn canary(ctx: &crate::rt::Ctx) -> Result<(u64, u64), String> {
    use crate::gen::Kind;
    use crate::ops::{Op, OutKind, Registry};
    use crate::sweep::{Mode, Plan};
    use crate::val::Fmt;
    let f = Fmt { n: 10, es: 1 };
    fn planted(a: u64, b: u64) -> bool {
        crate::rng::mix64((a << 16) | b) % 4099 == 0
    }
    let name = "canary::posit<10,1> add with a planted error";
    let op = Op::new(name, &["CANARY"], &[Kind::Pat(f), Kind::Pat(f)], OutKind::Pat(f), move |a, b, _| {
        let r = crate::fast::op_add(f, a as u32, b as u32) as u64;
        if planted(a, b) {
            r ^ 1
        } else {
            r
        }
    })
    .oracle(crate::orf::bin(f, 0, crate::orf::Bin::Add));
    let reg = Registry { ops: vec![op] };
    let mut rep = crate::rt::Report::new("CANARY");
    let plan = Plan { op: 0, mode: Mode::Exhaustive, name: name.to_string() };
    crate::sweep::run_plan(ctx, &reg, &plan, &mut rep);
    let mut want = 0u64;
    for a in 0..1u64 << 10 {
        for b in 0..1u64 << 10 {
            if planted(a, b) {
                want += 1;
            }
        }
    }
    let got = rep.failure_counts.get(name).copied().unwrap_or(0);
    let witnesses_ok = rep.failures.iter().all(|fl| fl.inputs.len() == 2 && planted(fl.inputs[0], fl.inputs[1]));
    if want == 0 || got != want || !witnesses_ok || !rep.harness_errors.is_empty() {
        return Err(format!(
            "canary: {} planted errors, {} reported, witnesses on planted inputs only: {}, harness errors: {:?}",
            want, got, witnesses_ok, rep.harness_errors
        ));
    }
    Ok((want, got))
}
