//! spverif run <Cxx> --tier quick|thorough --seed S --report <path>
//! spverif replay <op name> <hex input>...
//! spverif list

use spverif::json::J;
use spverif::ops::Registry;
use spverif::rt::{self, Ctx, Report, Tier};
use spverif::{mon, selfcheck};
use std::time::Instant;

fn usage() -> ! {
    eprintln!("usage: spverif run <Cxx> [--tier quick|thorough] [--seed N] [--report path] [--threads N]\n       spverif replay <op> <hex>...\n       spverif list");
    std::process::exit(2);
}

fn main() {
    let args: Vec<String> = std::env::args().collect();
    if args.len() < 2 {
        usage();
    }
    rt::install_panic_hook();
    match args[1].as_str() {
        "list" => {
            let reg = Registry::build();
            for o in &reg.ops {
                println!(
                    "{}\t{}\t{}{}",
                    o.name,
                    o.props.join(","),
                    o.ins.iter().map(|k| k.name()).collect::<Vec<_>>().join(","),
                    if o.stub { "\tSTUB" } else { "" }
                );
            }
        }
        "replay" => {
            if args.len() < 3 {
                usage();
            }
            if let Some(qn) = args[2].strip_suffix("::accumulate") {
                let words: Vec<u64> = args[3..]
                    .iter()
                    .map(|a| u64::from_str_radix(a.trim_start_matches("0x"), 16).expect("hex"))
                    .collect();
                let bad = mon::quire::replay_history(qn, &words);
                println!("REPLAY verdict={}", if bad { "VIOLATED" } else { "ok" });
                std::process::exit(if bad { 1 } else { 0 });
            }
            if args[2].starts_with('Q') {
                let words: Vec<u64> = args[3..]
                    .iter()
                    .map(|a| u64::from_str_radix(a.trim_start_matches("0x"), 16).expect("hex"))
                    .collect();
                if let Some(bad) = mon::quire::replay_state_op(&args[2], &words) {
                    println!("REPLAY verdict={}", if bad { "VIOLATED" } else { "ok" });
                    std::process::exit(if bad { 1 } else { 0 });
                }
            }
            if args[2].contains("::poly") {
                let words: Vec<u64> = args[3..]
                    .iter()
                    .map(|a| u64::from_str_radix(a.trim_start_matches("0x"), 16).expect("hex"))
                    .collect();
                if let Some(bad) = mon::poly::replay(&args[2], &words) {
                    println!("REPLAY verdict={}", if bad { "VIOLATED" } else { "ok" });
                    std::process::exit(if bad { 1 } else { 0 });
                }
            }
            let reg = Registry::build();
            let Some(i) = reg.find(&args[2]) else {
                println!("REPLAY unknown op {}", args[2]);
                std::process::exit(2);
            };
            let op = &reg.ops[i];
            let mut inp = [0u64; 3];
            for (k, a) in args[3..].iter().enumerate().take(3) {
                let s = a.trim_start_matches("0x");
                inp[k] = u64::from_str_radix(s, 16).expect("hex input");
            }
            println!("REPLAY op={} inputs={:x?}", op.name, &inp[..op.arity()]);
            // the driver runs this under a timeout; a hang shows as the timeout
            let got = rt::guarded(|| (op.run)(inp[0], inp[1], inp[2]));
            let want = op.slow.as_ref().map(|s| s(inp[0], inp[1], inp[2]));
            match got {
                Ok(g) => println!("REPLAY got=0x{:x}", g),
                Err(ref m) => println!("REPLAY got=PANIC {}", m),
            }
            match want {
                Some(Some(w)) => println!("REPLAY want=0x{:x}", w),
                Some(None) => println!("REPLAY want=(property silent on this input)"),
                None => println!("REPLAY want=(no oracle registered)"),
            }
            let bad = match (&got, &want) {
                (Ok(g), Some(Some(w))) => g != w,
                (Err(_), _) => true,
                _ => false,
            };
            println!("REPLAY verdict={}", if bad { "VIOLATED" } else { "ok" });
            std::process::exit(if bad { 1 } else { 0 });
        }
        "catalogue" | "dump" => {
            // spverif catalogue --seed S --count K --out FILE [--only SUBSTR] [--threads N]
            // spverif dump --seed S --count K --op NAME --chunk I
            let mut seed = 1u64;
            let mut count = 4096u64;
            let mut out = String::from("/tmp/spverif-catalogue.json");
            let mut only: Option<String> = None;
            let mut opname = String::new();
            let mut chunk = 0usize;
            let mut threads = std::thread::available_parallelism().map(|n| n.get()).unwrap_or(8);
            let mut i = 2;
            while i + 1 < args.len() {
                match args[i].as_str() {
                    "--seed" => seed = args[i + 1].parse().expect("seed"),
                    "--count" => count = args[i + 1].parse().expect("count"),
                    "--out" => out = args[i + 1].clone(),
                    "--only" => only = Some(args[i + 1].clone()),
                    "--op" => opname = args[i + 1].clone(),
                    "--chunk" => chunk = args[i + 1].parse().expect("chunk"),
                    "--threads" => threads = args[i + 1].parse().expect("threads"),
                    _ => usage(),
                }
                i += 2;
            }
            let reg = Registry::build();
            if args[1] == "dump" {
                mon::catalogue::dump(&reg, seed, count, &opname, chunk);
                return;
            }
            {
                let names: Vec<String> = reg.ops.iter().map(|o| o.name.clone()).collect();
                let arity: Vec<usize> = reg.ops.iter().map(|o| o.arity()).collect();
                *rt::HANG_HANDLER.lock().unwrap() = Some(std::sync::Arc::new(Box::new(move |h: &rt::HangInfo| {
                    let (name, ar) = if h.op < names.len() { (names[h.op].clone(), arity[h.op]) } else { (format!("special#{}", h.op), 3) };
                    let inputs = [h.a, h.b, h.c];
                    println!(
                        "HANG op={} inputs={}",
                        name,
                        inputs[..ar].iter().map(|v| format!("0x{:x}", v)).collect::<Vec<_>>().join(",")
                    );
                })));
            }
            mon::catalogue::run(&reg, seed, count, threads, &out, only.as_deref());
        }
        "run" => {
            if args.len() < 3 {
                usage();
            }
            let prop = args[2].clone();
            let mut tier = Tier::Quick;
            let mut seed = 1u64;
            let mut report = format!("/tmp/spverif-{}.json", prop);
            let mut threads = std::thread::available_parallelism().map(|n| n.get()).unwrap_or(8);
            let mut i = 3;
            while i < args.len() {
                match args[i].as_str() {
                    "--tier" => {
                        tier = if args[i + 1] == "thorough" { Tier::Thorough } else { Tier::Quick };
                        i += 2;
                    }
                    "--seed" => {
                        seed = args[i + 1].parse().expect("seed");
                        i += 2;
                    }
                    "--report" => {
                        report = args[i + 1].clone();
                        i += 2;
                    }
                    "--threads" => {
                        threads = args[i + 1].parse().expect("threads");
                        i += 2;
                    }
                    _ => usage(),
                }
            }
            let ctx = Ctx {
                prop: prop.clone(),
                tier,
                seed,
                threads,
                report_path: report,
                start: Instant::now(),
            };
            let reg = Registry::build();
            let mut rep = Report::new(&prop);
            // oracle self-checks first
            let sc = selfcheck::run(seed, if ctx.quick() { 20_000 } else { 200_000 });
            rep.selfcheck = sc.json;
            for e in sc.errors {
                rep.harness_errors.push(format!("oracle self-check: {}", e));
            }
            match selfcheck::canary(&ctx) {
                Ok((planted, reported)) => {
                    rep.selfcheck.set(
                        "canary_planted_errors_reported",
                        spverif::json::J::s(&format!("{} of {}", reported, planted)),
                    );
                }
                Err(e) => rep.harness_errors.push(e),
            }
            if !rep.harness_errors.is_empty() {
                rep.write(&ctx);
                eprintln!("HARNESS-ERROR: oracle self-check failed: {:?}", rep.harness_errors);
                std::process::exit(2);
            }
            // hang handler: write what we have plus the hang as a failure
            {
                let names: Vec<String> = reg.ops.iter().map(|o| o.name.clone()).collect();
                let arity: Vec<usize> = reg.ops.iter().map(|o| o.arity()).collect();
                let path = ctx.report_path.clone();
                let prop2 = prop.clone();
                let tier_s = if ctx.quick() { "quick" } else { "thorough" };
                *rt::HANG_HANDLER.lock().unwrap() = Some(std::sync::Arc::new(Box::new(move |h: &rt::HangInfo| {
                    let (name, inputs) = if h.op < names.len() {
                        (names[h.op].clone(), [h.a, h.b, h.c][..arity[h.op]].to_vec())
                    } else if !h.label.is_empty() {
                        (h.label.clone(), h.words.clone())
                    } else {
                        (format!("special#{}", h.op), vec![h.a, h.b, h.c])
                    };
                    let f = rt::Failure {
                        op: name,
                        kind: "hang".into(),
                        inputs,
                        got: "NO RETURN".into(),
                        want: "a value".into(),
                        note: format!("no progress for {} s inside the code under test", rt::HANG_SECS),
                    };
                    let j = J::obj()
                        .with("property_id", J::s(&prop2))
                        .with("tier", J::s(tier_s))
                        .with("seed", J::u(seed))
                        .with("aborted_on_hang", J::Bool(true))
                        .with("failures", J::arr([f.to_json()]))
                        .with("evaluations", J::u(0))
                        .with("distinct_nontrivial", J::u(0));
                    let _ = std::fs::write(&path, j.to_string());
                })));
            }
            mon::run(&ctx, &reg, &mut rep);
            rep.write(&ctx);
            let nf: u64 = rep.failure_counts.values().sum();
            println!(
                "spverif {} {:?} seed={} failures={} harness_errors={} wall={:.1}s",
                prop,
                tier,
                seed,
                nf,
                rep.harness_errors.len(),
                ctx.start.elapsed().as_secs_f64()
            );
            if !rep.harness_errors.is_empty() {
                for e in &rep.harness_errors {
                    eprintln!("HARNESS-ERROR: {}", e);
                }
                std::process::exit(2);
            }
            std::process::exit(if nf > 0 { 1 } else { 0 });
        }
        _ => usage(),
    }
}
