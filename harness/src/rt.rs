//! Runtime: worker pool, heartbeat / watchdog, panic capture, coverage accounting, report writer.

use crate::json::J;
use std::cell::{Cell, RefCell};
use std::collections::BTreeMap;
use std::panic::{catch_unwind, AssertUnwindSafe};
use std::sync::atomic::{AtomicBool, AtomicU64, AtomicUsize, Ordering};
use std::sync::{Arc, Mutex};
use std::time::{Duration, Instant};

#[derive(Clone, Copy, Debug, PartialEq, Eq)]
pub enum Tier {
    Quick,
    Thorough,
}

pub struct Ctx {
    pub prop: String,
    pub tier: Tier,
    pub seed: u64,
    pub threads: usize,
    pub report_path: String,
    pub start: Instant,
}

/// SPVERIF_SCALE_SHIFT=k divides every sample budget by 2^k and lowers the exhaustive thresholds by
/// k bits: used only by tools/coverage.sh, where the instrumented build is ~100x slower and line
/// coverage needs breadth, not volume. Never set by the registered checks.
pub fn scale_shift() -> u32 {
    static S: std::sync::OnceLock<u32> = std::sync::OnceLock::new();
    *S.get_or_init(|| std::env::var("SPVERIF_SCALE_SHIFT").ok().and_then(|v| v.parse().ok()).unwrap_or(0))
}

impl Ctx {
    pub fn quick(&self) -> bool {
        self.tier == Tier::Quick
    }
    pub fn pick(&self, quick: u64, thorough: u64) -> u64 {
        let v = if self.quick() { quick } else { thorough };
        (v >> scale_shift()).max(1)
    }
}

// ------------------------------------------------------------------ heartbeat
pub const MAX_THREADS: usize = 64;
pub const HANG_SECS: u64 = 20;

pub struct Slot {
    pub tick: AtomicU64,
    /// 0 = idle / harness code, 1 = inside the code under test
    pub phase: AtomicU64,
    pub op: AtomicUsize,
    pub a: AtomicU64,
    pub b: AtomicU64,
    pub c: AtomicU64,
}

#[allow(clippy::declare_interior_mutable_const)]
const SLOT_INIT: Slot = Slot {
    tick: AtomicU64::new(0),
    phase: AtomicU64::new(0),
    op: AtomicUsize::new(usize::MAX),
    a: AtomicU64::new(0),
    b: AtomicU64::new(0),
    c: AtomicU64::new(0),
};
pub static SLOTS: [Slot; MAX_THREADS] = [SLOT_INIT; MAX_THREADS];

thread_local! {
    static MY_SLOT: Cell<usize> = const { Cell::new(MAX_THREADS - 1) };
    static LAST_PANIC: RefCell<String> = const { RefCell::new(String::new()) };
}

pub fn set_my_slot(i: usize) {
    MY_SLOT.with(|s| s.set(i));
}
pub fn my_slot() -> &'static Slot {
    &SLOTS[MY_SLOT.with(|s| s.get())]
}

/// announce the case about to be handed to the code under test
#[inline(always)]
pub fn enter(slot: &Slot, op: usize, a: u64, b: u64, c: u64) {
    slot.op.store(op, Ordering::Relaxed);
    slot.a.store(a, Ordering::Relaxed);
    slot.b.store(b, Ordering::Relaxed);
    slot.c.store(c, Ordering::Relaxed);
    slot.phase.store(1, Ordering::Relaxed);
    slot.tick.fetch_add(1, Ordering::Relaxed);
}
#[inline(always)]
pub fn leave(slot: &Slot) {
    slot.phase.store(0, Ordering::Relaxed);
}

pub fn install_panic_hook() {
    std::panic::set_hook(Box::new(|info| {
        let msg = if let Some(s) = info.payload().downcast_ref::<&str>() {
            s.to_string()
        } else if let Some(s) = info.payload().downcast_ref::<String>() {
            s.clone()
        } else {
            "<non-string panic>".to_string()
        };
        let loc = info
            .location()
            .map(|l| format!("{}:{}", l.file(), l.line()))
            .unwrap_or_default();
        if std::thread::current().name() == Some("main") {
            // nothing catches a panic of the main thread: it is a harness error, show it
            eprintln!("HARNESS-ERROR: main thread panicked: {} @ {}", msg, loc);
        }
        LAST_PANIC.with(|p| *p.borrow_mut() = format!("{} @ {}", msg, loc));
    }));
}
pub fn take_panic_message() -> String {
    LAST_PANIC.with(|p| std::mem::take(&mut *p.borrow_mut()))
}

/// Run `f` (one call of the code under test) so that a panic becomes Err(message).
pub fn guarded<R>(f: impl FnOnce() -> R) -> Result<R, String> {
    match catch_unwind(AssertUnwindSafe(f)) {
        Ok(r) => Ok(r),
        Err(_) => Err(take_panic_message()),
    }
}

// ------------------------------------------------------------------ failures
#[derive(Clone, Debug)]
pub struct Failure {
    pub op: String,
    /// "mismatch" | "panic" | "hang" | "low_bits" | ...
    pub kind: String,
    pub inputs: Vec<u64>,
    pub got: String,
    pub want: String,
    pub note: String,
}

impl Failure {
    pub fn to_json(&self) -> J {
        J::obj()
            .with("op", J::s(&self.op))
            .with("kind", J::s(&self.kind))
            .with("inputs", J::arr(self.inputs.iter().map(|&v| J::hex(v))))
            .with("got", J::s(&self.got))
            .with("want", J::s(&self.want))
            .with("note", J::s(&self.note))
    }
}

// ------------------------------------------------------------------ distinct-input sketch
pub struct Sketch {
    bits: Vec<AtomicU64>,
    mask: u64,
}
impl Sketch {
    pub fn new(log2_bits: u32) -> Sketch {
        let n = 1usize << (log2_bits - 6);
        let mut v = Vec::with_capacity(n);
        for _ in 0..n {
            v.push(AtomicU64::new(0));
        }
        Sketch {
            bits: v,
            mask: (1u64 << log2_bits) - 1,
        }
    }
    /// true if this hash was not seen before
    #[inline]
    pub fn insert(&self, h: u64) -> bool {
        let i = h & self.mask;
        let w = &self.bits[(i >> 6) as usize];
        let b = 1u64 << (i & 63);
        w.fetch_or(b, Ordering::Relaxed) & b == 0
    }
}

// ------------------------------------------------------------------ coverage of one sub-space
pub const NCLASS: usize = 9;

#[derive(Clone, Default)]
pub struct Cov {
    pub evaluations: u64,
    /// exhaustive sub-spaces: exact count of non-trivial inputs; sampled ones: distinct
    /// non-trivial inputs seen in the hash-selected 1/16 subsample (a lower bound)
    pub nontrivial: u64,
    pub skipped: u64,
    pub class_hist: [u64; NCLASS],
    pub unknown_class: u64,
    /// bit i set = a result with regime run length i was observed
    pub out_regimes: u64,
    pub failures: u64,
    pub samples: Vec<J>,
}

impl Cov {
    pub fn merge(&mut self, o: &Cov) {
        self.evaluations += o.evaluations;
        self.nontrivial += o.nontrivial;
        self.skipped += o.skipped;
        for i in 0..NCLASS {
            self.class_hist[i] += o.class_hist[i];
        }
        self.unknown_class += o.unknown_class;
        self.out_regimes |= o.out_regimes;
        self.failures += o.failures;
        for s in &o.samples {
            if self.samples.len() < 6 {
                self.samples.push(s.clone());
            }
        }
    }
    pub fn to_json(&self) -> J {
        let mut classes = J::obj();
        for (i, name) in crate::val::ROUND_CLASS_NAMES.iter().enumerate() {
            if self.class_hist[i] > 0 {
                classes.set(name, J::u(self.class_hist[i]));
            }
        }
        if self.unknown_class > 0 {
            classes.set("unclassified", J::u(self.unknown_class));
        }
        let mut regs = Vec::new();
        for i in 0..64 {
            if self.out_regimes >> i & 1 == 1 {
                regs.push(J::u(i));
            }
        }
        J::obj()
            .with("evaluations", J::u(self.evaluations))
            .with("nontrivial", J::u(self.nontrivial))
            .with("oracle_skipped", J::u(self.skipped))
            .with("result_classes", classes)
            .with("result_regime_lengths_seen", J::Arr(regs))
            .with("failures", J::u(self.failures))
    }
}

// ------------------------------------------------------------------ report
pub struct Report {
    pub prop: String,
    pub subspaces: BTreeMap<String, (Cov, bool, String)>, // name -> (cov, exhaustive, how)
    pub failures: Vec<Failure>,
    pub failure_counts: BTreeMap<String, u64>,
    pub selfcheck: J,
    pub extra: J,
    pub harness_errors: Vec<String>,
    pub inconclusive: Vec<String>,
}

pub const MAX_FAIL_PER_OP: u64 = 24;

impl Report {
    pub fn new(prop: &str) -> Report {
        Report {
            prop: prop.to_string(),
            subspaces: BTreeMap::new(),
            failures: Vec::new(),
            failure_counts: BTreeMap::new(),
            selfcheck: J::obj(),
            extra: J::obj(),
            harness_errors: Vec::new(),
            inconclusive: Vec::new(),
        }
    }
    pub fn add_subspace(&mut self, name: &str, cov: Cov, exhaustive: bool, how: &str) {
        let e = self
            .subspaces
            .entry(name.to_string())
            .or_insert((Cov::default(), exhaustive, how.to_string()));
        e.0.merge(&cov);
        e.1 = e.1 && exhaustive;
    }
    pub fn add_failure(&mut self, f: Failure) {
        let c = self.failure_counts.entry(f.op.clone()).or_insert(0);
        *c += 1;
        if *c <= MAX_FAIL_PER_OP {
            self.failures.push(f);
        }
    }
    /// add `n` more failures of `op` that were counted but not kept as witnesses
    pub fn add_failure_count(&mut self, op: &str, n: u64) {
        *self.failure_counts.entry(op.to_string()).or_insert(0) += n;
    }
    pub fn to_json(&self, ctx: &Ctx) -> J {
        let mut subs = J::obj();
        let mut evals = 0u64;
        let mut nontriv = 0u64;
        let mut all_exh = !self.subspaces.is_empty();
        let mut samples = Vec::new();
        for (name, (cov, exh, how)) in &self.subspaces {
            let mut j = cov.to_json();
            j.set("exhaustive", J::Bool(*exh));
            j.set("how", J::s(how));
            subs.set(name, j);
            evals += cov.evaluations;
            nontriv += cov.nontrivial;
            all_exh &= *exh;
            for s in cov.samples.iter().take(2) {
                if samples.len() < 40 {
                    samples.push(J::obj().with("subspace", J::s(name)).with("case", s.clone()));
                }
            }
        }
        let mut fc = J::obj();
        for (k, v) in &self.failure_counts {
            fc.set(k, J::u(*v));
        }
        J::obj()
            .with("property_id", J::s(&self.prop))
            .with("tier", J::s(if ctx.quick() { "quick" } else { "thorough" }))
            .with("seed", J::u(ctx.seed))
            .with("evaluations", J::u(evals))
            .with("distinct_nontrivial", J::u(nontriv))
            .with("exhaustive", J::Bool(all_exh))
            .with("subspaces", subs)
            .with("samples", J::Arr(samples))
            .with("failures", J::arr(self.failures.iter().map(|f| f.to_json())))
            .with("failure_counts", fc)
            .with("oracle_selfcheck", self.selfcheck.clone())
            .with("extra", self.extra.clone())
            .with("harness_errors", J::arr(self.harness_errors.iter().map(|s| J::s(s))))
            .with("inconclusive", J::arr(self.inconclusive.iter().map(|s| J::s(s))))
            .with("wall_s", J::Num(ctx.start.elapsed().as_secs_f64()))
    }
    pub fn write(&self, ctx: &Ctx) {
        let s = self.to_json(ctx).to_string();
        std::fs::write(&ctx.report_path, s).expect("cannot write report");
    }
}

// ------------------------------------------------------------------ worker pool
/// Global place where a hang is reported by the watchdog; the main thread writes the
/// partial report and exits with code 3.
pub struct HangInfo {
    pub op: usize,
    pub a: u64,
    pub b: u64,
    pub c: u64,
    /// set by the special monitors (quire histories, polynomials, C15): replayable op name and
    /// the full input words of the call in flight
    pub label: String,
    pub words: Vec<u64>,
}

/// what a special monitor is doing right now, per worker slot: (replayable op name, input words).
/// Updated under a mutex by the worker before the call, read by the watchdog only on a hang.
pub static DOING: [Mutex<(String, Vec<u64>)>; MAX_THREADS] = [const { Mutex::new((String::new(), Vec::new())) }; MAX_THREADS];

pub fn doing_set(label: &str, words: &[u64]) {
    let i = MY_SLOT.with(|s| s.get());
    let mut g = DOING[i].lock().unwrap();
    if g.0 != label {
        g.0.clear();
        g.0.push_str(label);
    }
    g.1.clear();
    g.1.extend_from_slice(words);
}
pub fn doing_push(words: &[u64]) {
    let i = MY_SLOT.with(|s| s.get());
    DOING[i].lock().unwrap().1.extend_from_slice(words);
}
pub fn doing_clear() {
    let i = MY_SLOT.with(|s| s.get());
    let mut g = DOING[i].lock().unwrap();
    g.0.clear();
    g.1.clear();
}
pub static HANG: Mutex<Option<HangInfo>> = Mutex::new(None);
pub static HANG_FLAG: AtomicBool = AtomicBool::new(false);

/// Run `nshards` shards on `threads` workers. `work(shard, &mut L)`; locals are returned for merging.
/// Returns Err(HangInfo) if the watchdog saw a worker stuck inside the code under test.
pub fn par_shards<L: Send + 'static>(
    threads: usize,
    nshards: u64,
    mk_local: impl Fn() -> L + Sync,
    work: impl Fn(u64, &mut L) + Sync,
) -> Result<Vec<L>, HangInfo> {
    let next = AtomicU64::new(0);
    let done_workers = AtomicUsize::new(0);
    let results: Mutex<Vec<L>> = Mutex::new(Vec::new());
    let panicked: Mutex<Vec<String>> = Mutex::new(Vec::new());
    let threads = threads.min(MAX_THREADS - 1).min(nshards.max(1) as usize).max(1);
    let hang: Mutex<Option<HangInfo>> = Mutex::new(None);
    std::thread::scope(|sc| {
        let mut handles = Vec::new();
        for t in 0..threads {
            let next = &next;
            let results = &results;
            let work = &work;
            let mk_local = &mk_local;
            let done_workers = &done_workers;
            let panicked = &panicked;
            handles.push(
                std::thread::Builder::new()
                    .stack_size(16 << 20)
                    .spawn_scoped(sc, move || {
                        set_my_slot(t);
                        let slot = my_slot();
                        slot.phase.store(0, Ordering::Relaxed);
                        let mut local = mk_local();
                        loop {
                            let s = next.fetch_add(1, Ordering::Relaxed);
                            if s >= nshards {
                                break;
                            }
                            // a panic that escapes a shard is a harness error (monitors catch
                            // panics of the code under test themselves)
                            let r = catch_unwind(AssertUnwindSafe(|| work(s, &mut local)));
                            if r.is_err() {
                                panicked
                                    .lock()
                                    .unwrap()
                                    .push(format!("shard {}: {}", s, take_panic_message()));
                                leave(slot);
                            }
                        }
                        results.lock().unwrap().push(local);
                        done_workers.fetch_add(1, Ordering::SeqCst);
                    })
                    .unwrap(),
            );
        }
        // watchdog (this thread)
        let mut last = vec![(0u64, Instant::now()); threads];
        let mut nap = Duration::from_micros(50);
        loop {
            if done_workers.load(Ordering::SeqCst) == threads {
                break;
            }
            // short naps first (most sub-spaces finish in well under a millisecond)
            std::thread::sleep(nap);
            nap = (nap * 2).min(Duration::from_millis(50));
            for t in 0..threads {
                let slot = &SLOTS[t];
                let tick = slot.tick.load(Ordering::Relaxed);
                if tick != last[t].0 {
                    last[t] = (tick, Instant::now());
                } else if slot.phase.load(Ordering::Relaxed) == 1
                    && last[t].1.elapsed() > Duration::from_secs(HANG_SECS)
                {
                    let (label, words) = match DOING[t].try_lock() {
                        Ok(g) => (g.0.clone(), g.1.clone()),
                        Err(_) => (String::new(), Vec::new()),
                    };
                    *hang.lock().unwrap() = Some(HangInfo {
                        op: slot.op.load(Ordering::Relaxed),
                        a: slot.a.load(Ordering::Relaxed),
                        b: slot.b.load(Ordering::Relaxed),
                        c: slot.c.load(Ordering::Relaxed),
                        label,
                        words,
                    });
                }
            }
            if hang.lock().unwrap().is_some() {
                // cannot join a stuck thread: the caller must finish the process
                break;
            }
        }
        if let Some(h) = hang.lock().unwrap().take() {
            // leak the scope: report and exit from here
            hang_exit(h);
        }
        for h in handles {
            let _ = h.join();
        }
    });
    let p = panicked.into_inner().unwrap();
    if !p.is_empty() {
        eprintln!("HARNESS-ERROR: panic outside guarded code: {:?}", p);
        std::process::exit(2);
    }
    Ok(results.into_inner().unwrap())
}

pub type HangHandler = Box<dyn Fn(&HangInfo) + Send + Sync>;
pub static HANG_HANDLER: Mutex<Option<Arc<HangHandler>>> = Mutex::new(None);

fn hang_exit(h: HangInfo) -> ! {
    let handler = HANG_HANDLER.lock().unwrap().clone();
    if let Some(hd) = handler {
        hd(&h);
    } else {
        println!("HANG op_index={} a=0x{:x} b=0x{:x} c=0x{:x}", h.op, h.a, h.b, h.c);
    }
    std::process::exit(3);
}
